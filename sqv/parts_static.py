"""Structural obligations decided on the extracted source (folded constants, regex facts on the real token
regexes, scans for constructs the symbolic executor treats as outside any contract)."""
import ast
import os
import re

from . import extras
from .extras import ob
from .pyfront import Source

EVAL_MODULES = ['ast_ops', 'functions', 'scoped_dict', 'vm_state', 'utils', 'lexer', 'rules', 'custom_types', 'exceptions']
# modules without I/O, process control, dynamic code or introspection of the interpreter
ALLOWED_IMPORTS = {'typing', 'functools', 'copy', 'math', 'random', 'decimal', 'regex', 'dataclasses', 'abc',
                   'contextlib', 'pathlib', 'smartquery', 'operator', 'itertools', 'collections', 'string', 'numbers',
                   'enum', 'bisect', 'heapq', 'fractions', 'statistics', 'textwrap', 'unicodedata', '__future__'}
CONTEXT_NAMES = {'getcontext', 'setcontext', 'localcontext', 'BasicContext', 'ExtendedContext', 'DefaultContext', 'Context'}
CONTEXT_ATTRS = {'prec', 'rounding', 'Emax', 'Emin', 'traps', 'flags', 'capitals', 'clamp'}
PROCESS_NAMES = {'exit', '_exit', 'abort', 'kill', 'raise_signal', 'quit', 'system', 'popen', 'fork'}
MUTATING_METHODS = {'append', 'extend', 'insert', 'pop', 'remove', 'clear', 'update', 'setdefault', 'add', 'discard',
                    'popitem', 'sort', 'reverse', '__setitem__', '__delitem__'}


def _src():
    return Source(os.environ.get('SQ_REPO', '/repo'))


def functions_of(tree):
    """(qualified name, node) of every function/lambda body in a module, plus ('<module>', module)"""
    out = []

    def visit(node, prefix):
        for ch in ast.iter_child_nodes(node):
            if isinstance(ch, (ast.FunctionDef, ast.AsyncFunctionDef)):
                out.append((prefix + ch.name, ch))
                visit(ch, prefix + ch.name + '.')
            elif isinstance(ch, ast.ClassDef):
                visit(ch, prefix + ch.name + '.')
            else:
                visit(ch, prefix)
    visit(tree, '')
    return out


def locals_of(fn):
    names = set()
    a = fn.args
    for x in a.posonlyargs + a.args + a.kwonlyargs:
        names.add(x.arg)
    if a.vararg:
        names.add(a.vararg.arg)
    if a.kwarg:
        names.add(a.kwarg.arg)
    for n in ast.walk(fn):
        if isinstance(n, ast.Name) and isinstance(n.ctx, ast.Store):
            names.add(n.id)
        if isinstance(n, (ast.For, ast.comprehension)):
            for t in ast.walk(n.target):
                if isinstance(t, ast.Name):
                    names.add(t.id)
        if isinstance(n, ast.ExceptHandler) and n.name:
            names.add(n.name)
    return names


def base_name(node):
    while isinstance(node, (ast.Attribute, ast.Subscript)):
        node = node.value
    return node.id if isinstance(node, ast.Name) else None


# ---------------------------------------------------------------------------------------------
def decimal_context(prop, tier, seed):
    """C08 E4 / C04: no code of the package touches the decimal context (28 digits, half-even)"""
    src = _src()
    obs = []
    hits = []
    for m in src.trees:
        for fname, fn in functions_of(src.trees[m]) + [('<module>', src.trees[m])]:
            body = fn if fname != '<module>' else ast.Module(body=[s for s in fn.body if not isinstance(s, (ast.FunctionDef, ast.ClassDef))], type_ignores=[])
            for n in ast.walk(body):
                if isinstance(n, ast.Name) and n.id in CONTEXT_NAMES:
                    hits.append('%s:%s uses %s (line %d)' % (m, fname, n.id, n.lineno))
                if isinstance(n, ast.Attribute) and n.attr in CONTEXT_NAMES:
                    hits.append('%s:%s uses .%s (line %d)' % (m, fname, n.attr, n.lineno))
                if isinstance(n, ast.Attribute) and n.attr in CONTEXT_ATTRS and isinstance(n.ctx, (ast.Store, ast.Del)):
                    hits.append('%s:%s assigns .%s (line %d)' % (m, fname, n.attr, n.lineno))
                if isinstance(n, ast.alias) and n.name in CONTEXT_NAMES:
                    hits.append('%s imports %s' % (m, n.name))
    obs.append(ob('%s:package:decimal-context-never-read-or-changed' % prop, ['C08', 'C04'], not hits, {'occurrences': sorted(set(hits))}))
    return obs, {}


def regex_timeout_constant(prop, tier, seed):
    src = _src()
    try:
        v = src.const('functions', 'REGEX_TIMEOUT')
    except Exception as e:
        v = None
    ok = isinstance(v, (int, float)) and not isinstance(v, bool) and 0 < v <= 0.1
    return [ob('C05:REGEX_TIMEOUT:is-a-number-in-(0,0.1]-seconds', ['C05'], ok, {'value': repr(v)})], {
        'level': 'other',
        'explanation': 'package-side obligations of C05 are proved deductively (every regex call of the three builtins passes '
                       'timeout=REGEX_TIMEOUT on every path, the constant is a small positive number, nothing else calls the engine); '
                       'the for-all-patterns wall-clock bound is a property of the third-party C regex engine that no contract within '
                       'reach can express or decide: it is an assumption (matching honours the timeout; compilation is outside it)',
        'assumed': ['A-REGEX-ENGINE: regex.search / regex.findall(..., timeout=T) return or raise within T plus time linear in the input, including compilation (measured, not proved)']}


def module_state(prop, tier, seed):
    """C11 H3: no function of the package assigns a module global or mutates a module-level container"""
    src = _src()
    obs = []
    hits = []
    for m in src.trees:
        if m in ('exceptions',):
            continue
        mod_names = set(src.globals[m])
        for fname, fn in functions_of(src.trees[m]):
            if m == 'sq_parser' and fname == 'SqParser.__init__':
                continue
            loc = locals_of(fn)
            for n in ast.walk(fn):
                if isinstance(n, (ast.Global, ast.Nonlocal)):
                    hits.append('%s:%s declares %s %s' % (m, fname, type(n).__name__.lower(), ','.join(n.names)))
                if isinstance(n, (ast.Subscript, ast.Attribute)) and isinstance(n.ctx, (ast.Store, ast.Del)):
                    b = base_name(n)
                    if b is not None and b not in loc and b in mod_names:
                        hits.append('%s:%s stores into module-level %s (line %d)' % (m, fname, b, n.lineno))
                if isinstance(n, ast.Call) and isinstance(n.func, ast.Attribute) and n.func.attr in MUTATING_METHODS:
                    b = base_name(n.func.value)
                    if b is not None and b not in loc and b in mod_names and src.globals[m][b][0] == 'const':
                        hits.append('%s:%s calls %s.%s (line %d)' % (m, fname, b, n.func.attr, n.lineno))
                if isinstance(n, ast.AugAssign):
                    b = base_name(n.target)
                    if b is not None and b not in loc and b in mod_names and not isinstance(n.target, ast.Name):
                        hits.append('%s:%s augments module-level %s (line %d)' % (m, fname, b, n.lineno))
            # mutable default arguments are per-function state that survives calls
            for d in list(fn.args.defaults) + [x for x in fn.args.kw_defaults if x is not None]:
                if isinstance(d, (ast.List, ast.Dict, ast.Set, ast.Call)):
                    hits.append('%s:%s has a mutable default argument (line %d)' % (m, fname, d.lineno))
            for dec in fn.decorator_list:
                dn = ast.unparse(dec)
                if any(x in dn for x in ('cache', 'lru_cache', 'memo')):
                    hits.append('%s:%s is memoised by @%s' % (m, fname, dn))
    obs.append(ob('C11:package:no-module-level-state-is-written-by-any-function', ['C11', 'C10', 'C17', 'C18', 'C14', 'C02', 'C07'], not hits,
                  {'occurrences': sorted(set(hits))}))
    return obs, {}


def confinement(prop, tier, seed):
    """C02 P4: imports and process-level calls"""
    src = _src()
    obs = []
    bad_imports = []
    lazy = []
    proc = []
    for m in src.trees:
        for n in ast.walk(src.trees[m]):
            if isinstance(n, ast.Import):
                for a in n.names:
                    if a.name.split('.')[0] not in ALLOWED_IMPORTS:
                        bad_imports.append('%s imports %s' % (m, a.name))
            if isinstance(n, ast.ImportFrom):
                if (n.module or '').split('.')[0] not in ALLOWED_IMPORTS:
                    bad_imports.append('%s imports from %s' % (m, n.module))
        for fname, fn in functions_of(src.trees[m]):
            if m == 'sq_parser' and fname == 'SqParser.__init__':
                continue
            for n in ast.walk(fn):
                if isinstance(n, (ast.Import, ast.ImportFrom)):
                    lazy.append('%s:%s imports at run time (line %d)' % (m, fname, n.lineno))
                if isinstance(n, ast.Call):
                    f = n.func
                    nm = f.attr if isinstance(f, ast.Attribute) else (f.id if isinstance(f, ast.Name) else None)
                    dyn = isinstance(f, ast.Name) and nm in ('__import__', 'eval', 'exec', 'compile', 'open', 'input', 'breakpoint')
                    if nm in PROCESS_NAMES or nm == 'import_module' or dyn:
                        proc.append('%s:%s calls %s (line %d)' % (m, fname, nm, n.lineno))
    obs.append(ob('C02:package:imports-only-the-allowed-pure-modules', ['C02'], not bad_imports, {'occurrences': bad_imports}))
    obs.append(ob('C02:package:no-import-while-a-program-is-evaluated', ['C02'], not lazy, {'occurrences': lazy}))
    obs.append(ob('C02:package:no-process-file-or-dynamic-code-call', ['C02', 'C16'], not proc,
                  {'occurrences': proc}))
    return obs, {}


# ---- regex facts on the real token regexes ---------------------------------------------------------------
def _can_match_char(regex, ch, flags=re.VERBOSE):
    """may a match of `regex` contain the character ch?  (over-approximation by the sre parse tree)"""
    try:
        import re._parser as sre_parse
        import re._constants as sre_c
    except ImportError:      # pragma: no cover
        import sre_parse
        import sre_constants as sre_c
    tree = sre_parse.parse(regex, flags)
    code = ord(ch)

    def in_category(cat):
        name = str(cat)
        c = ch
        if 'NOT_DIGIT' in name:
            return not c.isdigit()
        if 'DIGIT' in name:
            return c.isdigit()
        if 'NOT_SPACE' in name:
            return not c.isspace()
        if 'SPACE' in name:
            return c.isspace()
        if 'NOT_WORD' in name:
            return not (c.isalnum() or c == '_')
        if 'WORD' in name:
            return c.isalnum() or c == '_'
        if 'LINEBREAK' in name:
            return c == '\n'
        return True

    def in_set(items):
        neg = False
        hit = False
        for op, av in items:
            name = str(op)
            if name == 'NEGATE':
                neg = True
            elif name == 'LITERAL':
                hit = hit or av == code
            elif name == 'RANGE':
                hit = hit or av[0] <= code <= av[1]
            elif name == 'CATEGORY':
                hit = hit or in_category(av)
            else:
                hit = True
        return hit != neg

    def walk(items):
        for op, av in items:
            name = str(op)
            if name == 'LITERAL':
                if av == code:
                    return True
            elif name == 'NOT_LITERAL':
                if av != code:
                    return True
            elif name == 'ANY':
                if ch != '\n' or (flags & re.DOTALL):
                    return True
            elif name == 'IN':
                if in_set(av):
                    return True
            elif name == 'BRANCH':
                if any(walk(list(b)) for b in av[1]):
                    return True
            elif name == 'SUBPATTERN':
                if walk(list(av[3])):
                    return True
            elif name in ('MAX_REPEAT', 'MIN_REPEAT', 'POSSESSIVE_REPEAT'):
                if walk(list(av[2])):
                    return True
            elif name in ('ASSERT', 'ASSERT_NOT', 'AT', 'GROUPREF', 'GROUPREF_EXISTS'):
                if name == 'GROUPREF':
                    return True
                continue
            elif name == 'CATEGORY':
                if in_category(av):
                    return True
            elif name == 'ATOMIC_GROUP':
                if walk(list(av)):
                    return True
            else:
                return True
        return False
    return walk(list(tree))


def token_regexes(src):
    out = {}
    g = src.globals['lexer']
    for name, (kind, node) in g.items():
        if name.startswith('t_') and name not in ('t_ignore',) and kind == 'const' and isinstance(node, ast.Constant) \
                and isinstance(node.value, str):
            out[name] = node.value
    for key, fi in src.funcs.items():
        if key.startswith('smartquery.lexer:t_') and fi.docstring() and fi.name != 't_error':
            out[fi.name] = fi.docstring()
    return out


def lexer_facts(prop, tier, seed):
    src = _src()
    obs = []
    regs = token_regexes(src)
    for name, rx in sorted(regs.items()):
        if name == 't_NEWLINE':
            continue
        try:
            can = _can_match_char(rx, '\n')
            err = None
        except Exception as e:
            can, err = True, str(e)
        obs.append(ob('C20:%s:token-text-never-contains-a-line-break' % name, ['C20', 'C15'], not can, {'regex': rx, 'error': err}))
    try:
        ign = src.const('lexer', 't_ignore')
    except Exception:
        ign = None
    obs.append(ob('C15:t_ignore:spaces-and-tabs-are-skipped-and-nothing-else', ['C15', 'C20'], ign is not None and set(ign) == {' ', '\t'},
                  {'value': repr(ign)}))
    # PLY compiles the token regexes with the flags given to lex(): the extraction assumes re.VERBOSE only
    from .parts_grammar import native_dump
    d = native_dump(os.environ.get('SQ_REPO', '/repo'))
    obs.append(ob('C20:lexer:regex-flags-are-VERBOSE-only', ['C20', 'C15'], d['lexreflags'] == int(re.VERBOSE), {'flags': d['lexreflags']}))
    obs.append(ob('C15:lexer:ignored-characters-in-the-built-lexer-match-the-source', ['C15'], d['lexignore'] == ign, {'built': d['lexignore']}))
    obs.append(ob('C16:lexer:illegal-characters-go-to-t_error', ['C16'], bool(d['has_errorf'])))
    obs.append(ob('C16:parser:syntax-errors-go-to-p_error', ['C16', 'C20'], d['errorfunc'] == 'p_error', {'errorfunc': d['errorfunc']}))
    # the master regex is an ordered alternation (first alternative that matches wins, not the longest): a token
    # whose text extends another token's text must be tried first, or `==` would lex as `=`, `=`
    order = []
    for item in d['lexre']:
        for nm in item['names']:
            if nm and nm[1] and nm[1] not in order:
                order.append(nm[1])
    from contracts.lexer import literal_language
    langs = {}
    for name, rx in regs.items():
        ll = literal_language(rx)
        if ll:
            langs[name[2:]] = ll
    bad = []
    for a, la in langs.items():
        for b, lb in langs.items():
            if a == b or a not in order or b not in order:
                continue
            for x in la:
                for y in lb:
                    if y != x and y.startswith(x) and order.index(a) < order.index(b):
                        bad.append('%s %r is tried before %s %r' % (a, x, b, y))
    obs.append(ob('C06:lexer:longer-operator-tokens-are-tried-before-their-prefixes', ['C06', 'C15'], not bad and len(order) > 10,
                  {'violations': bad, 'order': order}))
    obs.append(ob('C06:lexer:string-rule-is-tried-before-the-name-rule', ['C06', 'C18'],
                  'STRING' in order and 'NAME' in order and order.index('STRING') < order.index('NAME') and
                  'NUMBER' in order and 'COMMENT' in order, {'order': order}))
    # the NEWLINE rule matches every separator the property lists
    nl = regs.get('t_NEWLINE')
    ok = False
    if nl:
        r = re.compile(nl, re.VERBOSE)
        ok = all(r.fullmatch(s) for s in ('\n', '\r\n', ';'))
    obs.append(ob('C15:t_NEWLINE:matches-LF-CRLF-and-semicolon', ['C15', 'C20'], ok, {'regex': nl}))
    # a comment runs to the end of the line and cannot swallow the line break
    cm = regs.get('t_COMMENT')
    obs.append(ob('C15:t_COMMENT:matches-from-hash-to-end-of-line', ['C15'], bool(cm) and re.compile(cm, re.VERBOSE).fullmatch('# x = 1 ; y') is not None
                  and re.compile(cm, re.VERBOSE).match('# a\nb').group(0) == '# a', {'regex': cm}))
    return obs, {'assumed': ['A-LEX-DRIVER: PLY\'s lexer driver tries the rules in its documented order on the master regex, skips t_ignore characters, stamps tok.lineno / tok.lexpos before calling the rule, and calls t_error on no match']}


extras.register(['C08', 'C04'], decimal_context)
extras.register(['C05'], regex_timeout_constant)
extras.register(['C11', 'C10', 'C17', 'C18', 'C14', 'C02', 'C07'], module_state)


def limit_error_handlers(prop, tier, seed):
    """C01: the limit error raised by Op.eval reaches the caller of SqParser.eval unchanged.  Structural part: no
    `except` clause of the package can catch it (its class chain is OpsExecutionLimitExceededError < ParserError <
    Exception < BaseException) unless the handler does nothing but re-raise it.  The symbolic part
    (exhausted-budget-leaves-as-the-limit-error) covers what the model can see; this scan also covers calls into
    host code the model does not follow (an element's __eq__, a key function)."""
    src = _src()
    exc = src.exception_classes()
    chain = ['OpsExecutionLimitExceededError']
    while chain[-1] in exc:
        chain.append(exc[chain[-1]].split('.')[-1])
    chain += [c for c in ('Exception', 'BaseException') if c not in chain]
    obs = []
    for m in src.trees:
        for fname, fn in functions_of(src.trees[m]):
            for n in ast.walk(fn):
                if not isinstance(n, ast.ExceptHandler):
                    continue
                if n.type is None:
                    names = ['<bare except>']
                    catches = True
                else:
                    ts = n.type.elts if isinstance(n.type, ast.Tuple) else [n.type]
                    names = [ast.unparse(t).split('.')[-1] for t in ts]
                    catches = any(x in chain for x in names)
                reraises = bool(n.body) and isinstance(n.body[-1], ast.Raise) and n.body[-1].exc is None and \
                    not any(isinstance(x, (ast.Return, ast.Continue, ast.Break)) for b in n.body for x in ast.walk(b))
                obs.append(ob('C01:%s:%s:handler-cannot-swallow-or-convert-the-limit-error[except %s]' % (m, fname, ', '.join(names)),
                              ['C01', 'C16'], (not catches) or reraises, {'line': n.lineno, 'limit_error_chain': chain, 'soft': True}))
    return obs, {}


extras.register(['C01', 'C16'], limit_error_handlers)


def raw_builtin_entries(prop, tier, seed):
    """C07 and the properties phrased over it: a table entry published as a Python builtin (len, str, min, max, str.lower, ...)
    still denotes it - directly, or through a function / lambda that does nothing but forward its parameters to it.
    (A re-implementation may be right, but then it needs a contract of its own: the stub of the builtin is all the
    model knows about the entry.)"""
    from contracts.published import PUBLISHED_RAW_BUILTINS
    src = _src()
    obs = []

    def forwards(node, target):
        if isinstance(node, (ast.Name, ast.Attribute)):
            if ast.unparse(node) == target:
                return True
            g = src.globals['functions'].get(node.id) if isinstance(node, ast.Name) else None
            if g and g[0] == 'func':
                fn = src.funcs[g[1]].node
                body = [st for st in fn.body if not (isinstance(st, ast.Expr) and isinstance(st.value, ast.Constant))]
                if len(body) == 1 and isinstance(body[0], ast.Return) and body[0].value is not None:
                    return call_forwards(body[0].value, fn.args, target)
            return False
        if isinstance(node, ast.Lambda):
            return call_forwards(node.body, node.args, target)
        return False

    def call_forwards(call, fargs, target):
        if not (isinstance(call, ast.Call) and ast.unparse(call.func) == target and not call.keywords):
            return False
        params = [a.arg for a in fargs.posonlyargs + fargs.args]
        given = []
        for a in call.args:
            if isinstance(a, ast.Starred) and isinstance(a.value, ast.Name):
                given.append('*' + a.value.id)
            elif isinstance(a, ast.Name):
                given.append(a.id)
            else:
                return False
        want = params + (['*' + fargs.vararg.arg] if fargs.vararg else [])
        return given == want and not fargs.kwonlyargs and not fargs.kwarg and not fargs.defaults

    for name, target in sorted(PUBLISHED_RAW_BUILTINS.items()):
        node = src.functions_table.get(name)
        obs.append(ob('C07:FUNCTIONS[%r]:denotes-the-python-builtin-it-is-published-as' % name,
                      ['C07', 'C08', 'C04', 'C13', 'C14', 'C02', 'C03'], node is not None and forwards(node, target),
                      {'published': target, 'entry': ast.unparse(node) if node is not None else None}))
    return obs, {}


extras.register(['C07', 'C08', 'C04', 'C13', 'C14', 'C02', 'C03'], raw_builtin_entries)
extras.register(['C02', 'C16'], confinement)
extras.register(['C20', 'C15', 'C16', 'C06', 'C18'], lexer_facts)


LEAN_FILES = {'C01': 'Budget.lean', 'C03': 'Bound.lean', 'C10': 'Stack.lean'}


def lean_lemmas(prop, tier, seed):
    """the induction lemmas over the contracts (DESIGN 8), re-checked by `lean` in the thorough tier"""
    import subprocess
    f = LEAN_FILES.get(prop)
    if f is None or tier != 'thorough':
        return [], {}
    root = os.path.dirname(os.path.dirname(os.path.abspath(__file__)))
    p = subprocess.run(['lean', os.path.join(root, 'lean', f)], capture_output=True, text=True, timeout=600)
    return [ob('%s:lean/%s:induction-lemma-type-checks' % (prop, f), [prop], p.returncode == 0,
               {'lean_output': (p.stdout + p.stderr)[-500:]})], {
        'assumed': ['lean/%s states the induction over an evaluation abstractly; its hypotheses are the per-function obligations discharged above (a lemma about the shape of the argument, never a claim by itself)' % f]}


extras.register(['C01', 'C03', 'C10'], lean_lemmas)


# ---- the published lexical grammar -----------------------------------------------------------------------
PUBLISHED_TOKENS = {
    # written from the language description, not copied from lexer.py: numbers are digits with an optional
    # fraction; names are identifiers or %...% ; strings are single- or double-quoted, optionally raw, on one line,
    # with backslash escapes; comments run from # to the end of the line; separators are LF, CRLF and ;
    't_NUMBER': r'[0-9]+(\.[0-9]+)?',
    't_NAME': r'(%[^%\n]*%)|([A-Za-z_][A-Za-z0-9_]*)',
    't_STRING': r'''(r?"([^\\\n"]|\\[^\n])*")|(r?'([^\\\n']|\\[^\n])*')''',
    't_COMMENT': r'\#[^\n]*',
    't_NEWLINE': r'\r\n|\n|;',
}
PROBE_ALPHABET = ['a', 'r', '1', '0', '_', '.', '%', '"', "'", '\\', '#', ' ', '\n', ';', '=']


def _edge_chars(regex, last=False):
    """the characters a match of the regex can START with (or END with), over ASCII - by the sre parse tree"""
    try:
        import re._parser as sre_parse
    except ImportError:      # pragma: no cover
        import sre_parse
    tree = sre_parse.parse(regex, re.VERBOSE)
    universe = [chr(i) for i in range(128)]

    def set_chars(items):
        out = set()
        for c in universe:
            neg = False
            hit = False
            for op, av in items:
                name = str(op)
                if name == 'NEGATE':
                    neg = True
                elif name == 'LITERAL':
                    hit = hit or av == ord(c)
                elif name == 'RANGE':
                    hit = hit or av[0] <= ord(c) <= av[1]
                elif name == 'CATEGORY':
                    n2 = str(av)
                    if 'NOT_DIGIT' in n2:
                        hit = hit or not c.isdigit()
                    elif 'DIGIT' in n2:
                        hit = hit or c.isdigit()
                    elif 'NOT_SPACE' in n2:
                        hit = hit or not c.isspace()
                    elif 'SPACE' in n2:
                        hit = hit or c.isspace()
                    elif 'NOT_WORD' in n2:
                        hit = hit or not (c.isalnum() or c == '_')
                    elif 'WORD' in n2:
                        hit = hit or c.isalnum() or c == '_'
                    else:
                        hit = True
                else:
                    hit = True
            if hit != neg:
                out.add(c)
        return out

    def edge(items):
        """(set of edge chars, nullable)"""
        items = list(items)
        if last:
            items = items[::-1]
        chars = set()
        for op, av in items:
            name = str(op)
            if name == 'LITERAL':
                s, nl = {chr(av)} if av < 128 else {'?'}, False
            elif name == 'NOT_LITERAL':
                s, nl = set(universe) - {chr(av)}, False
            elif name == 'ANY':
                s, nl = set(universe) - {'\n'}, False
            elif name == 'IN':
                s, nl = set_chars(av), False
            elif name == 'CATEGORY':
                s, nl = set_chars([(op, av)]), False
            elif name == 'BRANCH':
                s, nl = set(), False
                for b in av[1]:
                    s2, n2 = edge(b)
                    s |= s2
                    nl = nl or n2
            elif name == 'SUBPATTERN':
                s, nl = edge(av[3])
            elif name in ('MAX_REPEAT', 'MIN_REPEAT', 'POSSESSIVE_REPEAT'):
                s, nl = edge(av[2])
                nl = nl or av[0] == 0
            elif name in ('AT', 'ASSERT', 'ASSERT_NOT'):
                s, nl = set(), True
            else:
                s, nl = set(universe), True
            chars |= s
            if not nl:
                return chars, False
        return chars, True
    return edge(tree)


def lexical_grammar(prop, tier, seed):
    """the token regexes of the real lexer denote the published lexical grammar"""
    import itertools
    src = _src()
    regs = token_regexes(src)
    obs = []
    nr = regs.get('t_NUMBER')
    if nr:
        try:
            first, n1 = _edge_chars(nr, last=False)
            lastc, n2 = _edge_chars(nr, last=True)
            ok = not n1 and not n2 and first <= set('0123456789') and lastc <= set('0123456789')
            info = {'first': ''.join(sorted(first)), 'last': ''.join(sorted(lastc)), 'regex': nr}
        except Exception as e:
            ok, info = False, {'error': str(e)}
        # so that 3.f() is NUMBER DOT NAME and x[.5] is not a number: r.f(a) and f(r, a) stay the same call (C15)
        obs.append(ob('C15:t_NUMBER:a-number-starts-and-ends-with-a-digit', ['C15', 'C06', 'C08'], ok, info))
    strings = ['']
    for k in range(1, 5):
        strings += [''.join(t) for t in itertools.product(PROBE_ALPHABET, repeat=k)]
    for name, pub in sorted(PUBLISHED_TOKENS.items()):
        real = regs.get(name)
        if real is None:
            obs.append(ob('C15:%s:token-rule-exists' % name, ['C15', 'C06'], False))
            continue
        try:
            r1 = re.compile(real, re.VERBOSE)
            r2 = re.compile(pub)
            diff = None
            for s in strings:
                # the lexer takes the match of the rule at the current position (a prefix of the rest of the text)
                m1, m2 = r1.match(s), r2.match(s)
                a = m1.end() if m1 else None
                b = m2.end() if m2 else None
                if a != b:
                    diff = {'text': s, 'lexer_token_length': a, 'published_token_length': b}
                    break
        except re.error as e:
            diff = {'error': str(e)}
        obs.append(ob('C15:%s:token-at-every-position-is-the-published-one[bounded: all texts up to length 4 over a 15-character probe alphabet]' % name,
                      ['C15', 'C06', 'C18', 'C20'], diff is None, {'regex': real, 'published': pub, 'first_difference': diff,
                                                                   'strings_compared': len(strings), 'bounded': True}))
    # the set of token rules is the published one: a new rule changes what the parser sees, a lost one loses a token
    from contracts.published import PUBLISHED_SIMPLE_TOKENS, PUBLISHED_FUNCTION_TOKENS
    want = set(PUBLISHED_SIMPLE_TOKENS) | set(PUBLISHED_FUNCTION_TOKENS)
    obs.append(ob('C15:lexer:token-rules-are-exactly-the-published-ones', ['C15', 'C06', 'C20', 'C18'], set(regs) == want,
                  {'added': sorted(set(regs) - want), 'lost': sorted(want - set(regs))}))
    for name, pub in sorted(PUBLISHED_SIMPLE_TOKENS.items()):
        if name in regs:
            obs.append(ob('C15:%s:token-regex-is-the-published-one' % name, ['C15', 'C06'], regs[name].strip() == pub.strip(),
                          {'regex': regs[name], 'published': pub}))
    # the number class of the language: decimal.Decimal with another repr and nothing else (the model does not
    # distinguish the two; a __str__ / __format__ / __eq__ / __hash__ of its own would make literals differ from computed numbers)
    ci = src.classes.get('Decimal')
    if ci is not None:
        meths = sorted(m.name for m in ci.node.body if isinstance(m, (ast.FunctionDef, ast.AsyncFunctionDef)))
        extra_stmts = [type(m).__name__ for m in ci.node.body if not isinstance(m, (ast.FunctionDef, ast.Pass, ast.Expr))]
        obs.append(ob('C08:custom_types.Decimal:overrides-only-__repr__', ['C08', 'C04', 'C07', 'C14', 'C19'],
                      meths == ['__repr__'] and not extra_stmts, {'methods': meths, 'other_statements': extra_stmts}))
    # exception classes: the driver and Python's own machinery treat some classes specially
    exc = src.exception_classes()
    chain = []
    c = 'ParserError'
    while c in exc:
        c = exc[c].split('.')[-1]
        chain.append(c)
    obs.append(ob('C16:exceptions:ParserError-derives-directly-from-Exception', ['C16', 'C01', 'C06', 'C15', 'C20', 'C07'], chain == ['Exception'],
                  {'bases': chain, 'why': 'PLY\'s LR driver catches SyntaxError raised by an action and enters error recovery; generators turn StopIteration into RuntimeError; handlers for LookupError in the evaluator would swallow it'}))
    lim = 'OpsExecutionLimitExceededError'
    obs.append(ob('C16:exceptions:ops-limit-error-derives-from-ParserError', ['C16', 'C01'], exc.get(lim, '').split('.')[-1] == 'ParserError',
                  {'bases': exc.get(lim)}))
    return obs, {}


extras.register(['C15', 'C06', 'C18', 'C20', 'C16', 'C01', 'C08', 'C07', 'C04', 'C14', 'C19'], lexical_grammar)
