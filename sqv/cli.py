"""Per-property check driver.

    python3-vt -m sqv.cli C03 [--tier quick|thorough] [--relock] [--list]

exit 0 held (KNOWN-FINDING lines allowed) / 1 VIOLATION / 2 undecided / 3 checker error
"""
import argparse
import hashlib
import json
import multiprocessing as mp
import os
import sys
import time
import traceback

ROOT = os.path.dirname(os.path.dirname(os.path.abspath(__file__)))
sys.path.insert(0, ROOT)

CONTRACT_MODULES = ['contracts.scoped_dict', 'contracts.ast_ops', 'contracts.functions', 'contracts.sq_parser',
                    'contracts.lexer', 'contracts.rules']
ALL_PROPS = ['C%02d' % i for i in range(1, 21)]

_ENGINE = None
_TASKS = None


def build(prop):
    import importlib
    from sqv.engine import Engine
    eng = Engine(props_filter=[prop] if prop else None)
    mods = []
    for name in CONTRACT_MODULES:
        try:
            mods.append(importlib.import_module(name))
        except ModuleNotFoundError as e:
            if e.name != name:
                raise
    for m in mods:
        eng.contracts.update(m.contracts(eng))
    tasks = []
    for m in mods:
        tasks.extend(m.tasks(eng))
    from sqv import findings
    findings.install(eng, prop)
    from sqv import canary
    tasks.extend(canary.tasks(eng, prop))
    return eng, tasks


def _init(prop):
    global _ENGINE, _TASKS
    _ENGINE, _TASKS = build(prop)


def _run(label):
    try:
        t = [t for t in _TASKS if t.label == label][0]
        r = _ENGINE.run_task(t)
        out = r.to_json()
        out['assumptions'] = sorted(getattr(_ENGINE, 'assumptions_seen', set()))
        return out
    except Exception as e:      # pragma: no cover
        return {'key': label, 'role': '?', 'paths': 0, 'dead_paths': 0, 'undecided': [],
                'errors': ['%s: %s\n%s' % (type(e).__name__, e, traceback.format_exc())],
                'time': 0.0, 'outcomes': {}, 'obligations': [], 'assumptions': []}


def load_lock():
    p = os.path.join(ROOT, 'contracts', 'OBLIGATIONS.lock')
    if not os.path.exists(p):
        return None
    with open(p) as f:
        return json.load(f)


def relevant_labels(prop, lock, all_labels):
    """tasks that generate obligations of this property on the unchanged tree (from the lock);
    tasks the lock does not know (new FUNCTIONS entries, new functions) always run"""
    if lock is None:
        return list(all_labels)
    known = set(lock.get('tasks', {}))
    rel = set(lock.get('relevant', {}).get(prop, []))
    return [l for l in all_labels if l in rel or l not in known]


def run_symbolic(prop, tier, lock, jobs=None):
    eng, tasks = build(prop)
    labels = [t.label for t in tasks]
    run_labels = relevant_labels(prop, lock, labels)
    jobs = jobs or min(16, max(1, len(run_labels)))
    t0 = time.time()
    ctx = mp.get_context('fork')
    with ctx.Pool(jobs, initializer=_init, initargs=(prop,)) as pool:
        # longest first
        order = sorted(run_labels, key=lambda l: -(lock or {}).get('tasks', {}).get(l, {}).get('time', 1.0))
        results = pool.map(_run, order, chunksize=1)
    return eng, labels, run_labels, results, time.time() - t0


def main(argv=None):
    ap = argparse.ArgumentParser()
    ap.add_argument('prop')
    ap.add_argument('--tier', default=os.environ.get('VERIF_TIER', 'quick'))
    ap.add_argument('--relock', action='store_true')
    ap.add_argument('--replay')
    ap.add_argument('--jobs', type=int)
    ap.add_argument('--verbose', '-v', action='store_true')
    args = ap.parse_args(argv)
    from sqv import report
    if args.prop == 'relock':
        return report.relock(run_symbolic, ALL_PROPS)
    if args.replay:
        from sqv import replay
        return replay.rerun(args.replay)
    seed = int(os.environ.get('VERIF_SEED', '0') or 0)
    return report.check_property(args.prop, args.tier, seed, run_symbolic, load_lock(), verbose=args.verbose,
                                 jobs=args.jobs)


if __name__ == '__main__':
    sys.exit(main())
