"""Per-property check driver.

    python3-vt -m sqv.cli C03 [--tier quick|thorough] [--relock] [--list]

exit 0 held (KNOWN-FINDING lines allowed) / 1 VIOLATION / 2 undecided / 3 checker error
"""
import argparse
import hashlib
import json
import multiprocessing as mp
import os
import sys
import time
import traceback

ROOT = os.path.dirname(os.path.dirname(os.path.abspath(__file__)))
sys.path.insert(0, ROOT)

CONTRACT_MODULES = ['contracts.scoped_dict', 'contracts.ast_ops', 'contracts.functions', 'contracts.sq_parser',
                    'contracts.lexer', 'contracts.rules']
ALL_PROPS = ['C%02d' % i for i in range(1, 21)]

_ENGINE = None
_TASKS = None


def build(prop):
    import importlib
    from sqv.engine import Engine
    eng = Engine(props_filter=[prop] if prop else None)
    mods = []
    for name in CONTRACT_MODULES:
        try:
            mods.append(importlib.import_module(name))
        except ModuleNotFoundError as e:
            if e.name != name:
                raise
    for m in mods:
        eng.contracts.update(m.contracts(eng))
    tasks = []
    for m in mods:
        tasks.extend(m.tasks(eng))
    eng.carry = {role: {p for p, roles in PROP_ROLES.items() if roles is None or role in roles}
                 for role in CARRIED_ROLES}
    eng.carry_c07 = (set(EVALUATOR_ROLES), set(ALL_PROPS))
    for t in tasks:
        if t.label.endswith(':SqParser.parse'):
            # SqParser.eval (and everything checked through it) assumes the contract of parse at its call site
            t.carried_by = {p for p, roles in PROP_ROLES.items() if roles is None or 'sq_parser' in roles}
    from sqv import findings
    findings.install(eng, prop)
    from sqv import canary
    tasks.extend(canary.tasks(eng, prop))
    return eng, tasks


_TIER = 'quick'


def _init(prop, tier='quick'):
    global _ENGINE, _TASKS, _TIER
    _ENGINE, _TASKS = build(prop)
    _TIER = tier


def cvc5_recheck(queries):
    """second back end (thorough tier): the same SMT-LIB query must get the same verdict from cvc5"""
    import subprocess
    import tempfile
    out = {'agree': 0, 'disagree': [], 'undecided': 0, 'seconds': 0.0}
    t0 = time.time()
    with tempfile.TemporaryDirectory(prefix='sqv_cvc5_') as d:
        for k, (name, status, smt) in enumerate(queries):
            p = os.path.join(d, 'q%d.smt2' % k)
            with open(p, 'w') as f:
                f.write('(set-logic ALL)\n' + smt + ('\n(check-sat)\n' if '(check-sat)' not in smt else ''))
            try:
                r = subprocess.run(['/usr/bin/cvc5', '--tlimit=20000', p], capture_output=True, text=True, timeout=40)
                verdict = (r.stdout.strip().splitlines() or ['error'])[0].strip()
            except subprocess.TimeoutExpired:
                verdict = 'timeout'
            want = {'proved': 'unsat', 'refuted': 'sat', 'known': 'sat'}.get(status)
            if verdict in ('sat', 'unsat') and want is not None:
                if verdict == want:
                    out['agree'] += 1
                else:
                    out['disagree'].append({'obligation': name, 'z3': status, 'cvc5': verdict})
            else:
                out['undecided'] += 1
    out['seconds'] = round(time.time() - t0, 2)
    return out


def _run(label):
    try:
        t = [t for t in _TASKS if t.label == label][0]
        queries = []
        seen = set()
        if _TIER == 'thorough':
            def sink(ex, ob, goal):
                if ob.static or ob.name in seen or ob.status not in ('proved', 'refuted', 'known'):
                    return
                seen.add(ob.name)
                queries.append((ob.name, ob.status, _ENGINE.dump_smt(ex, goal)))
            _ENGINE.smt_sink = sink
        r = _ENGINE.run_task(t)
        out = r.to_json()
        out['assumptions'] = sorted(getattr(_ENGINE, 'assumptions_seen', set()))
        if _TIER == 'thorough':
            out['cvc5'] = cvc5_recheck(queries)
        return out
    except Exception as e:      # pragma: no cover
        return {'key': label, 'role': '?', 'paths': 0, 'dead_paths': 0, 'undecided': [],
                'errors': ['%s: %s\n%s' % (type(e).__name__, e, traceback.format_exc())],
                'time': 0.0, 'outcomes': {}, 'obligations': [], 'assumptions': []}


def load_lock():
    p = os.path.join(ROOT, 'contracts', 'OBLIGATIONS.lock')
    if not os.path.exists(p):
        return None
    with open(p) as f:
        return json.load(f)


EVAL_ROLES = {'op_base', 'op_base_as_node', 'op_override', 'closure', 'builtin', 'helper', 'constant'}
PROP_ROLES = {
    'C01': EVAL_ROLES | {'scoped_dict_method', 'sq_parser'},
    'C02': EVAL_ROLES | {'sq_parser'}, 'C03': EVAL_ROLES | {'sq_parser', 'parser_action'},
    'C04': EVAL_ROLES | {'sq_parser'}, 'C05': {'builtin', 'helper', 'sq_parser'},
    # the tree parse() hands out is also what the evaluator is given: it must not be rewritten behind the parser's back
    'C06': {'parser_action', 'token_rule', 'sq_parser', 'op_override', 'op_base_as_node', 'closure'},
    'C07': None, 'C08': EVAL_ROLES | {'token_rule'},
    'C09': {'op_override', 'closure', 'parser_action', 'builtin', 'helper'},
    'C10': EVAL_ROLES | {'scoped_dict_method', 'sq_parser'},
    'C11': None, 'C12': {'op_override', 'builtin', 'helper'}, 'C13': {'builtin', 'helper', 'op_override', 'closure', 'sq_parser'},
    'C14': {'op_override', 'builtin', 'helper', 'parser_action'}, 'C15': {'token_rule', 'parser_action', 'sq_parser'},
    'C16': None, 'C17': None, 'C18': {'op_override', 'closure', 'sq_parser', 'token_rule', 'parser_action', 'scoped_dict_method'},
    'C19': {'builtin', 'helper', 'sq_parser'}, 'C20': {'token_rule', 'parser_action', 'sq_parser'},
}


# every property is about what eval / parse / list_names do with a TEXT: each relies on the tokens and on the tree
# the grammar actions build (their contracts are carried by every property, see Exec.prove)
# ... and on what the evaluator makes of that tree: the statement of every property is phrased over the values and
# effects the reference semantics (C07) give to a program, so the C07 clauses of the evaluator nodes, of the closure
# and of the scope stack are carried by every property (their other clauses - budget, scoping discipline, frames -
# stay with their own properties), and so is the abstract contract of Op.eval that every node refines
EVALUATOR_ROLES = {'op_base', 'op_base_as_node', 'op_override', 'closure', 'scoped_dict_method'}
for _p, _roles in PROP_ROLES.items():
    if _roles is not None:
        PROP_ROLES[_p] = set(_roles) | {'parser_action', 'token_rule', 'sq_parser'} | EVALUATOR_ROLES
CARRIED_ROLES = ('helper', 'scoped_dict_method', 'parser_action', 'token_rule', 'op_base')


def relevant_tasks(prop, tasks):
    """tasks whose role can carry obligations of this property.  Chosen by role, never by what the
    unchanged tree happened to generate: a change may add the first write / call / lookup to a function"""
    roles = PROP_ROLES.get(prop)
    return [t.label for t in tasks if roles is None or t.role in roles or t.role == 'canary']


def run_symbolic(prop, tier, lock, jobs=None):
    eng, tasks = build(prop)
    labels = [t.label for t in tasks]
    run_labels = relevant_tasks(prop, tasks) if prop else labels
    jobs = jobs or min(16, max(1, len(run_labels)))
    t0 = time.time()
    ctx = mp.get_context('fork')
    with ctx.Pool(jobs, initializer=_init, initargs=(prop, tier)) as pool:
        # longest first
        order = sorted(run_labels, key=lambda l: -(lock or {}).get('tasks', {}).get(l, {}).get('time', 1.0))
        results = pool.map(_run, order, chunksize=1)
    return eng, labels, run_labels, results, time.time() - t0


def setup():
    """offline self-check of the tool chain: nothing is installed or fetched"""
    import subprocess
    ok = True
    try:
        import z3
        s = z3.Solver()
        x = z3.Int('x')
        s.add(x > 1, x < 3)
        assert s.check() == z3.sat and s.model()[x].as_long() == 2
        print('z3', z3.get_version_string(), 'ok')
    except Exception as e:
        print('z3 unusable:', e)
        ok = False
    p = subprocess.run(['/venv/bin/python', '-c', 'import regex, decimal; print("native python ok")'], capture_output=True, text=True)
    print(p.stdout.strip() or p.stderr.strip())
    ok = ok and p.returncode == 0
    repo = os.environ.get('SQ_REPO', '/repo')
    if not os.path.isdir(os.path.join(repo, 'smartquery')):
        print('no smartquery package under', repo)
        ok = False
    lean = os.path.join(ROOT, 'lean')
    if os.path.isdir(lean):
        for f in sorted(os.listdir(lean)):
            if f.endswith('.lean'):
                q = subprocess.run(['lean', os.path.join(lean, f)], capture_output=True, text=True)
                print('lean', f, 'ok' if q.returncode == 0 else 'FAILED: ' + (q.stdout + q.stderr)[-400:])
                ok = ok and q.returncode == 0
    return 0 if ok else 3


def main(argv=None):
    ap = argparse.ArgumentParser()
    ap.add_argument('prop')
    ap.add_argument('--tier', default=os.environ.get('VERIF_TIER', 'quick'))
    ap.add_argument('--relock', action='store_true')
    ap.add_argument('--replay')
    ap.add_argument('--jobs', type=int)
    ap.add_argument('--verbose', '-v', action='store_true')
    args = ap.parse_args(argv)
    from sqv import report
    if args.prop == 'relock':
        return report.relock(run_symbolic, ALL_PROPS)
    if args.prop == 'setup':
        return setup()
    if args.prop == 'all':
        # screening mode for the seeded / harmless suites: one symbolic run of every task with every property's
        # clauses, then the per-property aggregation (the registered commands are the per-property ones)
        cached = run_symbolic(None, args.tier, load_lock(), args.jobs)
        worst = 0
        for p in ALL_PROPS:
            code = report.check_property(p, args.tier, int(os.environ.get('VERIF_SEED', '0') or 0),
                                         lambda *a, **k: cached, load_lock(), verbose=args.verbose, jobs=args.jobs)
            worst = max(worst, code)
        return worst
    if args.replay:
        from sqv import replay
        return replay.rerun(args.replay)
    seed = int(os.environ.get('VERIF_SEED', '0') or 0)
    return report.check_property(args.prop, args.tier, seed, run_symbolic, load_lock(), verbose=args.verbose,
                                 jobs=args.jobs)


if __name__ == '__main__':
    try:
        code = main()
    except SystemExit:
        raise
    except BaseException as e:       # a crash of the checker is never a verdict about the code
        traceback.print_exc()
        print('CHECKER-ERROR the checker crashed: %s: %s' % (type(e).__name__, e))
        code = 3
    sys.exit(code)
