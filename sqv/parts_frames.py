"""Frame inference at the PLY boundary (DESIGN 7): the reads/writes sets of the PLY drivers are derived
mechanically on every run from the vendored source, by field name (alias-insensitive, an over-approximation
of 'is read'), and every CARRIED field (read by some scanned function, not initialised by PLY itself) must be
reset by SqParser.parse / the name scanner before the first PLY call that can read it."""
import ast
import os

from . import extras
from .extras import ob
from .pyfront import Source

LEXER_ENTRY = ('Lexer', 'input')
LEXER_FUNCS = [('Lexer', 'input'), ('Lexer', 'token'), ('Lexer', 'skip'), ('Lexer', 'begin'), ('Lexer', 'push_state'),
               ('Lexer', 'pop_state'), ('Lexer', 'current_state')]
PARSER_FUNCS = [('LRParser', 'parse'), ('LRParser', 'parseopt_notrack'), ('LRParser', 'errok'), ('LRParser', 'restart'),
                ('LRParser', 'set_defaulted_states'), ('LRParser', 'disable_defaulted_states'), (None, 'call_errorfunc')]
# what a parse yields depends on every carried field: each property about parse results relies on the resets
PARSE_PROPS = ['C11', 'C06', 'C07', 'C15', 'C16', 'C17', 'C18', 'C20']
DYNAMIC = {'getattr', 'setattr', 'delattr', 'vars', '__dict__', 'globals', 'locals'}


def find(tree, cls, name):
    for n in tree.body:
        if cls is None and isinstance(n, ast.FunctionDef) and n.name == name:
            return n
        if cls is not None and isinstance(n, ast.ClassDef) and n.name == cls:
            for m in n.body:
                if isinstance(m, ast.FunctionDef) and m.name == name:
                    return m
    return None


def chain(node):
    """['t', 'lexer', 'lineno'] for t.lexer.lineno"""
    out = []
    while isinstance(node, ast.Attribute):
        out.append(node.attr)
        node = node.value
    if isinstance(node, ast.Name):
        out.append(node.id)
        return list(reversed(out))
    return None


def accesses(fn, is_lexer_obj):
    """[(field, 'r'|'w', lineno)] for attribute accesses on objects that denote the lexer per is_lexer_obj(chain prefix);
    a local name assigned from such an object (`lexer = t.lexer`) denotes it too"""
    out = []
    aliases = set()
    for _ in range(3):
        for n in ast.walk(fn):
            pairs = []
            if isinstance(n, ast.Assign) and len(n.targets) == 1:
                t = n.targets[0]
                if isinstance(t, ast.Name):
                    pairs.append((t, n.value))
                elif isinstance(t, ast.Tuple) and isinstance(n.value, ast.Tuple) and len(t.elts) == len(n.value.elts):
                    pairs.extend(zip(t.elts, n.value.elts))      # a, lexer = t.value, t.lexer
            for tgt, val in pairs:
                if not isinstance(tgt, ast.Name):
                    continue
                c = chain(val) if isinstance(val, (ast.Attribute, ast.Name)) else None
                if c and (is_lexer_obj(c) or (len(c) == 1 and c[0] in aliases)):
                    aliases.add(tgt.id)
    base = is_lexer_obj
    is_lexer_obj = lambda pre: base(pre) or (len(pre) == 1 and pre[0] in aliases)
    aug_targets = set()
    for n in ast.walk(fn):
        if isinstance(n, ast.AugAssign) and isinstance(n.target, ast.Attribute):
            aug_targets.add(id(n.target))
    for n in ast.walk(fn):
        if isinstance(n, ast.Attribute):
            c = chain(n)
            if c is None or len(c) < 2:
                continue
            if is_lexer_obj(c[:-1]):
                if isinstance(n.ctx, ast.Store):
                    out.append((c[-1], 'w', n.lineno))
                    if id(n) in aug_targets:
                        out.append((c[-1], 'r', n.lineno))
                elif isinstance(n.ctx, ast.Del):
                    out.append((c[-1], 'w', n.lineno))
                else:
                    out.append((c[-1], 'r', n.lineno))
    return out


def init_first(fn, is_obj):
    """fields assigned by the straight-line prefix of fn before any other statement kind"""
    out = set()
    for st in fn.body:
        if isinstance(st, ast.Expr) and isinstance(st.value, ast.Constant):
            continue
        if isinstance(st, ast.Assign):
            ok = True
            for t in st.targets:
                c = chain(t) if isinstance(t, ast.Attribute) else None
                if c and is_obj(c[:-1]):
                    out.add(c[-1])
            continue
        if isinstance(st, ast.If):
            # `if not isinstance(...)`: raise ...  style guards do not read fields of interest
            continue
        break
    return out


def uses_dynamic(fn):
    hits = []
    for n in ast.walk(fn):
        if isinstance(n, ast.Name) and n.id in DYNAMIC:
            hits.append('%s (line %d)' % (n.id, n.lineno))
        if isinstance(n, ast.Attribute) and n.attr in DYNAMIC:
            hits.append('.%s (line %d)' % (n.attr, n.lineno))
    return hits


def frames(prop, tier, seed):
    repo = os.environ.get('SQ_REPO', '/repo')
    src = Source(repo)
    lex_tree = ast.parse(open(os.path.join(repo, 'smartquery', 'ply', 'lex.py')).read())
    yacc_tree = ast.parse(open(os.path.join(repo, 'smartquery', 'ply', 'yacc.py')).read())
    obs = []
    reads, writes = {}, {}          # lexer fields
    dyn = []

    def note(acc, who):
        for f, k, ln in acc:
            (reads if k == 'r' else writes).setdefault(f, set()).add(who)
    missing = []
    # the lexer object: `self` in Lexer methods; `lexer` in the parser driver; t.lexer / p.lexer / self.lex in the package
    # the lexer methods that can run: input/token always; the state-switching ones only if something calls them
    called = set()
    pkg_fns = [fi.node for k, fi in src.funcs.items() if k.startswith('smartquery.lexer:') or k.startswith('smartquery.rules:')
               or k.startswith('smartquery.sq_parser:')]
    for fnode in pkg_fns + [f for f in (find(lex_tree, 'Lexer', 'input'), find(lex_tree, 'Lexer', 'token'),
                                        find(yacc_tree, 'LRParser', 'parseopt_notrack')) if f is not None]:
        for n in ast.walk(fnode):
            if isinstance(n, ast.Call) and isinstance(n.func, ast.Attribute):
                called.add(n.func.attr)
    lexer_funcs = [(c, n) for c, n in LEXER_FUNCS if n in ('input', 'token') or n in called]
    for cls, name in lexer_funcs:
        fn = find(lex_tree, cls, name)
        if fn is None:
            missing.append('%s.%s' % (cls, name))
            continue
        note(accesses(fn, lambda pre: pre == ['self']), 'ply.lex:%s.%s' % (cls, name))
        dyn += ['ply.lex:%s.%s uses %s' % (cls, name, h) for h in uses_dynamic(fn)]
    for cls, name in PARSER_FUNCS:
        fn = find(yacc_tree, cls, name)
        if fn is None:
            missing.append('%s.%s' % (cls, name))
            continue
        note(accesses(fn, lambda pre: pre == ['lexer'] or pre[-1:] == ['lexer']), 'ply.yacc:%s' % name)
        dyn += ['ply.yacc:%s uses %s' % (name, h) for h in uses_dynamic(fn) if 'getattr' not in h or name != 'parseopt_notrack' or True]
    for key, fi in src.funcs.items():
        # the token rules, the grammar actions and whatever helpers they call in their modules: any parameter x used
        # as x.lexer denotes a token / production carrying the lexer
        if key.startswith('smartquery.lexer:') or key.startswith('smartquery.rules:'):
            params = set(fi.params()[0]) or {'t'}
            note(accesses(fi.node, lambda pre, params=params: len(pre) == 2 and pre[0] in params and pre[1] == 'lexer'), key)
    entry = find(lex_tree, *LEXER_ENTRY)
    initialised = init_first(entry, lambda pre: pre == ['self']) if entry is not None else set()
    # the package's own methods of the lexer object are not fields
    methods = {'input', 'token', 'skip', 'begin', 'clone', 'push_state', 'pop_state', 'current_state'}
    all_read = {f for f in reads if f not in methods}
    constant = {f for f in all_read if f not in writes}
    write_only = {f for f in writes if f not in reads}
    carried = sorted(f for f in all_read if f in writes and f not in initialised)
    # what the facade resets (syntactically: `self.lex.<f> = <constant>` at the top level of the method)
    def resets_of(fi, depth=0):
        """fields of self.lex assigned a constant by the method, or by a helper method of the same class it calls"""
        out = set()
        lex_aliases = set()
        for st in ast.walk(fi.node):
            if isinstance(st, ast.Assign) and len(st.targets) == 1 and isinstance(st.targets[0], ast.Name) \
                    and isinstance(st.value, ast.Attribute) and chain(st.value) == ['self', 'lex']:
                lex_aliases.add(st.targets[0].id)
        for st in ast.walk(fi.node):
            if isinstance(st, ast.Assign) and isinstance(st.value, ast.Constant):
                for t in st.targets:
                    c = chain(t) if isinstance(t, ast.Attribute) else None
                    if c and (c[:-1] == ['self', 'lex'] or (len(c) == 2 and c[0] in lex_aliases)):
                        out.add(c[-1])
            if isinstance(st, ast.Call) and isinstance(st.func, ast.Attribute) and depth < 2:
                c = chain(st.func)
                if c and len(c) == 2 and c[0] == 'self':
                    helper = src.funcs.get('smartquery.sq_parser:SqParser.' + c[1])
                    if helper is not None and helper is not fi:
                        out |= resets_of(helper, depth + 1)
        return out
    parse_fi = src.funcs.get('smartquery.sq_parser:SqParser.parse')
    parse_resets = resets_of(parse_fi) if parse_fi else set()
    scanners = [f for k, f in src.funcs.items() if k.startswith('smartquery.sq_parser:SqParser.') and f.is_generator()]
    lexer_side = {f for f in carried if any(w.startswith('ply.lex') or ':t_' in w for w in reads.get(f, ()))}
    obs.append(ob('C11:frames:scanned-PLY-driver-functions-exist', ['C11'], not missing, {'missing': missing}))
    obs.append(ob('C11:frames:no-dynamic-attribute-access-in-the-scanned-functions', ['C11'],
                  not [d for d in dyn if 'ply.lex' in d], {'occurrences': dyn}))
    for f in carried:
        obs.append(ob('C11:frames:carried-lexer-field[%s]-is-reset-by-parse' % f, PARSE_PROPS, f in parse_resets,
                      {'read_by': sorted(reads[f]), 'written_by': sorted(writes[f]), 'parse_resets': sorted(parse_resets)}))
    for f in sorted(lexer_side):
        for sc in scanners:
            obs.append(ob('C11:frames:carried-lexer-field[%s]-is-reset-by-%s' % (f, sc.name), ['C11', 'C18', 'C06', 'C15', 'C16', 'C20'], f in resets_of(sc),
                          {'read_by': sorted(reads[f]), 'resets': sorted(resets_of(sc))}))
    obs.append(ob('C11:frames:carried-lexer-fields-are-the-ones-under-contract', ['C11'],
                  set(carried) <= {'lineno', 'paren_count', 'ast'},
                  {'derived': carried, 'under_contract': ['lineno', 'paren_count', 'ast'],
                   'initialised_by_Lexer.input': sorted(initialised), 'constant': sorted(constant)[:40], 'write_only': sorted(write_only)}))
    # parser object: errorok is the one carried field (A-ERROROK): read only as `errorcount == 0 or self.errorok`
    popt = find(yacc_tree, 'LRParser', 'parseopt_notrack')
    preads, pwrites = {}, {}
    if popt is not None:
        for f, k, ln in accesses(popt, lambda pre: pre == ['self']):
            (preads if k == 'r' else pwrites).setdefault(f, []).append(ln)
    pinit = set()
    if popt is not None:
        # assignments anywhere before the main `while True` loop
        for st in popt.body:
            if isinstance(st, ast.While):
                break
            for n in ast.walk(st):
                if isinstance(n, ast.Assign):
                    for t in n.targets:
                        c = chain(t) if isinstance(t, ast.Attribute) else None
                        if c and c[:-1] == ['self']:
                            pinit.add(c[-1])
    pcarried = sorted(f for f in preads if f in pwrites and f not in pinit)
    ok_errorok = True
    if popt is not None:
        for n in ast.walk(popt):
            if isinstance(n, ast.Attribute) and n.attr == 'errorok' and isinstance(n.ctx, ast.Load):
                ok_errorok = False
        for n in ast.walk(popt):
            if isinstance(n, ast.BoolOp) and isinstance(n.op, ast.Or) and len(n.values) == 2:
                a, b = n.values
                if isinstance(b, ast.Attribute) and b.attr == 'errorok' and ast.unparse(a) == 'errorcount == 0':
                    ok_errorok = True
    obs.append(ob('C11:frames:carried-parser-fields-are-covered', ['C11'], set(pcarried) <= {'errorok'},
                  {'derived': pcarried, 'initialised_before_the_loop': sorted(pinit)}))
    obs.append(ob('C11:frames:errorok-read-only-behind-errorcount==0', ['C11'], ok_errorok))
    info = {'assumed': ['A-PLY-FRAME: the derived field-name frame covers every access of the scanned PLY functions (no dynamic attribute access in ply.lex; the getattr/hasattr uses in ply.yacc concern the token attributes lineno/lexpos/lexer only)',
                        'A-ERROROK: LRParser.errorok is read only as `errorcount == 0 or self.errorok`, where errorcount == 0 holds at the first error of a parse, and only after p_error returns - which it never does (C16)']}
    return obs, info


extras.register(PARSE_PROPS, frames)
