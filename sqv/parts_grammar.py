"""The grammar-table engine (DESIGN 6): the parser that runs is PLY's generic LR driver over tables built
from rules.py + lexer.precedence.  The tables are a constant of the tree; the contract is a data-structure
invariant on them, decided by evaluating it on the one value they can have:

 G1  the productions PLY numbered are exactly the docstring alternatives read by the extraction
 G2  the dumped goto/shift structure is isomorphic to an independently constructed LALR(1) automaton, and
     every (state, terminal) cell holds the action the published operator table dictates
 Y2  every trailing-comma production stays reachable (C15)
"""
import json
import os
import shutil
import subprocess
import tempfile
import time

from . import extras
from .extras import ob
from .pyfront import Source, grammar_alternatives
from .lalr import Grammar, LALR, END

NATIVE_PY = '/venv/bin/python'
HERE = os.path.dirname(os.path.abspath(__file__))
_cache = {}


def native_dump(repo):
    if repo in _cache:
        return _cache[repo]
    tmp = tempfile.mkdtemp(prefix='sqv_dump_')
    try:
        shutil.copytree(os.path.join(repo, 'smartquery'), os.path.join(tmp, 'smartquery'))
        env = dict(os.environ)
        env['PYTHONPATH'] = tmp
        env['PYTHONDONTWRITEBYTECODE'] = '1'
        p = subprocess.run([NATIVE_PY, os.path.join(HERE, 'native', 'dump_tables.py')], cwd=tmp, env=env,
                           capture_output=True, text=True, timeout=300)
        if p.returncode != 0:
            raise RuntimeError('table dump failed: ' + p.stderr[-2000:])
        d = json.loads(p.stdout)
    finally:
        shutil.rmtree(tmp, ignore_errors=True)
    _cache[repo] = d
    return d


def source_grammar(src):
    """productions in PLY's order: p_* functions by line number, alternatives in docstring order"""
    fis = [f for k, f in src.funcs.items() if k.startswith('smartquery.rules:p_') and f.name != 'p_error' and f.parent is None]
    fis.sort(key=lambda f: f.node.lineno)
    prods = []
    for fi in fis:
        for lhs, rhs, prec in grammar_alternatives(fi):
            prods.append((lhs, tuple(rhs), prec, fi.name))
    return prods


# ---- the published operator table (property C06), written once as tightness levels ------------------
BIN_LEVEL = {'OR': (1, 'left'), 'AND': (2, 'left'),
             'EQ': (3, 'nonassoc'), 'NE': (3, 'nonassoc'), 'GT': (3, 'nonassoc'), 'LT': (3, 'nonassoc'),
             'GTE': (3, 'nonassoc'), 'LTE': (3, 'nonassoc'), 'IN': (3, 'nonassoc'),
             'PLUS': (4, 'left'), 'MINUS': (4, 'left'), 'TIMES': (5, 'left'), 'DIVIDE': (5, 'left'),
             'POWER': (6, 'right')}
# how tightly a token binds what is on its LEFT when it follows a complete expression
LOOKAHEAD_LEVEL = dict((t, v[0]) for t, v in BIN_LEVEL.items())
LOOKAHEAD_LEVEL.update({'NOT': 3,          # as a look-ahead after an expression NOT starts `not in`: a comparison
                        'IF': 0.5,         # the conditional form is loosest on its left ...
                        'PIPE': 7, 'DOT': 8,   # suffixes bind tighter than every binary operator
                        'LBRACKET': 11})   # indexing binds tightest
UNARY_LEVEL = {'NOT': 9, 'MINUS': 10}      # tighter than method/pipe suffixes, looser than indexing


def production_kind(lhs, rhs):
    """(kind, level, assoc) of a COMPLETED production for conflict resolution"""
    if lhs == 'expression' and len(rhs) == 3 and rhs[0] == 'expression' and rhs[2] == 'expression' and rhs[1] in BIN_LEVEL:
        lv, assoc = BIN_LEVEL[rhs[1]]
        return ('binary', lv, assoc)
    if lhs == 'expression' and rhs == ('expression', 'NOT', 'IN', 'expression'):
        return ('binary', 3, 'nonassoc')
    if lhs == 'expression' and len(rhs) == 2 and rhs[1] == 'expression' and rhs[0] in UNARY_LEVEL:
        return ('unary', UNARY_LEVEL[rhs[0]], 'right')
    if lhs == 'expression' and len(rhs) >= 2 and rhs[-1] == 'expression' and rhs[-2] in ('ELSE', 'LAMBDA'):
        return ('open', 0, 'right')        # bodies extend as far to the right as possible
    return None


def dictated(g, cands, lookahead):
    """the action the published language dictates for a cell with several candidate actions.
    cands: list of ('shift',) / ('reduce', p).  returns (action | 'error' | 'undictated' | 'nonlalr', why)"""
    shifts = [c for c in cands if c[0] == 'shift']
    reduces = [c for c in cands if c[0] == 'reduce']
    if len(reduces) == 1 and shifts:
        p = reduces[0][1]
        lhs, rhs = g.prods[p]
        kind = production_kind(lhs, rhs)
        if kind is not None and lookahead in LOOKAHEAD_LEVEL:
            lp, la = kind[1], LOOKAHEAD_LEVEL[lookahead]
            if lp > la:
                return reduces[0], '%s (level %s) binds tighter than what %s starts (level %s)' % (kind[0], lp, lookahead, la)
            if lp < la:
                return ('shift',), '%s (level %s) binds looser than what %s starts (level %s)' % (kind[0], lp, lookahead, la)
            if kind[2] == 'left':
                return reduces[0], 'same level, left-associative'
            if kind[2] == 'right':
                return ('shift',), 'same level, right-associative'
            return 'error', 'same level, non-associative'
        if lhs == 'slice' and rhs == ('expression',) and lookahead == 'RBRACKET':
            return ('shift',), 'a single index is an index, not a slice'
        return 'undictated', 'no rule for reduce %s -> %s vs shift %s' % (lhs, ' '.join(rhs), lookahead)
    if len(reduces) >= 2:
        names = sorted('%s -> %s' % (g.prods[c[1]][0], ' '.join(g.prods[c[1]][1])) for c in reduces)
        return 'nonlalr', 'reduce/reduce: %s' % ' vs '.join(names)
    return 'undictated', 'unexpected candidate set %s' % (cands,)


def kernel_name(lalr, s, legacy=False):
    """the kernel items of a state as text; sorted as TEXT, so that the name (and its hash) does not depend on the order
    in which the rule functions stand in rules.py"""
    items = []
    for p, d in sorted(lalr.kernels[s]):
        lhs, rhs = lalr.g.prods[p]
        items.append('%s -> %s . %s' % (lhs, ' '.join(rhs[:d]), ' '.join(rhs[d:])))
    items = [x.strip() for x in items]
    if not legacy:
        items.sort()
    return ' | '.join(items)


def cell_name(lalr, s, cands, a):
    import hashlib
    g = lalr.g
    red = ['%s -> %s .' % (g.prods[c[1]][0], ' '.join(g.prods[c[1]][1])) for c in cands if c[0] == 'reduce']
    h = hashlib.sha256(kernel_name(lalr, s).encode()).hexdigest()[:6]
    return 'C06:table[%s , %s]@%s' % (' / '.join(sorted(red)), a, h)


def witness(lalr, state, lookahead, best):
    path = lalr.path_to(state)
    if path is None:
        return None
    toks = [t for X in path for t in best.get(X, (X,))]
    return toks + [lookahead]


SAMPLE_TEXT = {'NAME': 'a', 'NUMBER': '1', 'STRING': '"s"', 'EQ': '==', 'NE': '!=', 'GT': '>', 'LT': '<', 'LTE': '<=',
               'GTE': '>=', 'PLUS': '+', 'MINUS': '-', 'TIMES': '*', 'POWER': '**', 'DIVIDE': '/', 'LPAREN': '(',
               'RPAREN': ')', 'LBRACKET': '[', 'RBRACKET': ']', 'COMMA': ',', 'DOT': '.', 'PIPE': '|', 'ASSIGN': '=',
               'SHORT_OP': '+=', 'LAMBDA': '=>', 'COLON': ':', 'LBRACE': '{', 'RBRACE': '}', 'NEWLINE': ';',
               'AND': 'and', 'OR': 'or', 'IN': 'in', 'NOT': 'not', 'IF': 'if', 'ELSE': 'else', 'TRUE': 'True',
               'FALSE': 'False', 'NONE': 'None', 'DEL': 'del', 'FOR': 'for', 'WHILE': 'while', 'BREAK': 'break',
               'CONTINUE': 'continue', 'DEF': 'def', 'RAISE': 'raise', 'ELIF': 'elif', END: ''}


def text_of(tokens):
    names = iter('abcdefghijklmnopqrstuvwxyz')
    out = []
    for t in tokens:
        if t == 'NAME':
            out.append(next(names, 'z'))
        else:
            out.append(SAMPLE_TEXT.get(t, t))
    return ' '.join(x for x in out if x)


def analyse(repo):
    src = Source(repo)
    dump = native_dump(repo)
    sprods = source_grammar(src)
    start = sprods[0][0]
    g = Grammar([(lhs, rhs) for lhs, rhs, prec, fn in sprods], start)
    lalr = LALR(g)
    return src, dump, sprods, g, lalr


def ply_action(dump, state, term):
    a = dump['action'].get(str(state), {}).get(term)
    if a is None:
        return 'error'
    if a > 0:
        return ('shift', a)
    if a < 0:
        return ('reduce', -a)
    return ('accept',)


def grammar_obligations(prop, tier, seed):
    t0 = time.time()
    repo = os.environ.get('SQ_REPO', '/repo')
    obs = []
    src, dump, sprods, g, lalr = analyse(repo)
    # G1: PLY's productions == the docstring grammar
    dp = [(p['name'], tuple(p['prod']), p['func']) for p in dump['productions'][1:]]
    sp = [(lhs, rhs, fn) for lhs, rhs, prec, fn in sprods]
    obs.append(ob('C06:grammar:productions-the-parser-runs-are-the-docstring-alternatives', ['C06', 'C15'], dp == sp,
                  {'dumped': len(dp), 'source': len(sp), 'first_difference': next((str((a, b)) for a, b in zip(dp, sp) if a != b), None)}))
    if dp != sp:
        return obs, {}
    # G2a: isomorphism of the automata, walking both from state 0
    m = {0: 0}          # my state -> PLY state
    q = [0]
    iso_ok = True
    why = None
    while q:
        s = q.pop()
        ps = m[s]
        for X, t in lalr.trans[s].items():
            if X in g.nonterminals:
                pt = dump['goto'].get(str(ps), {}).get(X)
            else:
                a = dump['action'].get(str(ps), {}).get(X)
                pt = a if (a is not None and a > 0) else None
                if pt is None:
                    continue       # the shift was resolved away: the target is unreachable through this edge
            if pt is None:
                iso_ok, why = False, 'state %d: no goto on %s in the dumped table' % (ps, X)
                continue
            if t in m:
                if m[t] != pt:
                    iso_ok, why = False, 'state %d --%s--> maps to both %d and %d' % (ps, X, m[t], pt)
            else:
                m[t] = pt
                q.append(t)
    # every dumped goto/shift edge of a matched state must exist independently
    inv = {v: k for k, v in m.items()}
    for ps_s, row in dump['goto'].items():
        ps = int(ps_s)
        if ps in inv:
            for X, pt in row.items():
                if lalr.trans[inv[ps]].get(X) is None or m.get(lalr.trans[inv[ps]][X]) != pt:
                    iso_ok, why = False, 'dumped goto(%d, %s) = %d has no independent counterpart' % (ps, X, pt)
    obs.append(ob('C06:table:goto-and-shift-structure-isomorphic-to-independent-LALR(1)-automaton', ['C06', 'C15'], iso_ok,
                  {'matched_states': len(m), 'independent_states': len(lalr.kernels), 'dumped_states': len(dump['action']),
                   'why': why}))
    best = lalr.shortest_expansions()
    n_cells = 0
    n_conf = 0
    conflict_info = []
    for s in sorted(m):
        ps = m[s]
        shifts = lalr.shifts(s)
        red = lalr.reduces[s]
        plain_bad = []
        for a in sorted(g.terminals):
            cands = []
            if a in shifts:
                cands.append(('shift',))
            for p in red.get(a, []):
                cands.append(('reduce', p))
            pa = ply_action(dump, ps, a)
            n_cells += 1

            def norm(act):
                if act == 'error' or isinstance(act, str):
                    return act
                if act[0] == 'shift':
                    return ('shift',)
                return act
            pa_n = norm(pa)
            if pa_n == ('reduce', 0) or pa == ('accept',):
                pa_n = ('reduce', 0)
            if len(cands) <= 1:
                want = cands[0] if cands else 'error'
                if want == ('reduce', 0):
                    want = ('reduce', 0)
                # shifts must also lead to the matching state
                ok = (pa_n == want)
                if ok and want == ('shift',):
                    ok = (m.get(shifts[a]) == pa[1])
                if not ok:
                    plain_bad.append((a, str(want), str(pa)))
                continue
            n_conf += 1
            want, reason = dictated(g, cands, a)
            name = cell_name(lalr, s, cands, a)
            def act_str(act):
                if isinstance(act, str):
                    return act
                if act[0] == 'shift':
                    return 'shift'
                if act[0] == 'reduce':
                    return 'reduce %s -> %s' % (g.prods[act[1]][0], ' '.join(g.prods[act[1]][1]))
                return str(act)
            info = {'state': kernel_name(lalr, s)[:400], 'table_action': act_str(pa),'candidates': [str(c) if c[0] == 'shift' else 'reduce %s -> %s' % g.prods[c[1]] for c in cands],
                    'dictated': str(want), 'why': reason, 'table_has': str(pa)}
            w = witness(lalr, s, a, best)
            if w:
                info['witness_prefix'] = text_of(w)
            if want == 'undictated':
                o = ob(name, ['C06'], False, info, status='unknown')
            elif want == 'nonlalr':
                # no LALR(1) action keeps every derivable sentence: record which one the table keeps
                info['kept'] = str(pa_n)
                o = ob(name + ' keeps-every-derivable-sentence', ['C06', 'C15', 'C07'], False, info)
            else:
                ok = (pa_n == (want if want == 'error' else want))
                # the suffix forms x.f(a) / x | f(a) and the trailing comma are surface syntax (C15)
                surface = a in ('COMMA', 'DOT', 'PIPE') or any(c[0] == 'reduce' and set(g.prods[c[1]][1]) & {'DOT', 'PIPE'} for c in cands)
                arith = {'PLUS', 'MINUS', 'TIMES', 'DIVIDE', 'POWER'}
                arithmetic = a in arith and any(c[0] == 'reduce' and set(g.prods[c[1]][1]) & arith for c in cands)
                o = ob(name, ['C06', 'C07'] + (['C15'] if surface else []) + (['C08', 'C04'] if arithmetic else []), ok, info)
            obs.append(o)
        import hashlib
        hh = hashlib.sha256(kernel_name(lalr, s).encode()).hexdigest()[:6]
        obs.append(ob('C06:table[state %s@%s]:unambiguous-cells-hold-their-only-action' % (kernel_name(lalr, s)[:90], hh), ['C06', 'C15'],
                      not plain_bad, {'differences': plain_bad[:10], 'state': ps}))
    # the grammar is the published one: no production lost (a lost one rejects texts the grammar derives), none with
    # another %prec; a production that is not published has no tree spec (contracts/rules.py: has-a-tree-spec)
    from contracts.published import PUBLISHED_PRODUCTIONS
    have = {(lhs, tuple(rhs)): prec for lhs, rhs, prec, fn in sprods}
    for lhs, rhs, prec in PUBLISHED_PRODUCTIONS:
        nm = '%s -> %s' % (lhs, ' '.join(rhs) or 'ε')
        surface = bool(set(rhs) & {'COMMA', 'DOT', 'PIPE', 'NEWLINE', 'COMMENT'}) or not rhs
        obs.append(ob('C06:grammar:published-production-is-present[%s]' % nm, ['C06', 'C15'] if surface else ['C06'],
                      (lhs, tuple(rhs)) in have and have[(lhs, tuple(rhs))] == prec,
                      {'present': (lhs, tuple(rhs)) in have, 'prec': have.get((lhs, tuple(rhs))), 'published_prec': prec}))
    # Y2 (C15): a trailing comma stays acceptable wherever the grammar has one
    for lhs, rhs, prec, fn in sprods:
        if len(rhs) >= 2 and rhs[-2] == 'COMMA' and rhs[-1] in ('RPAREN', 'RBRACKET', 'RBRACE'):
            # find the states with the item  lhs -> rhs[:-2] . COMMA close  and check COMMA is shifted there
            pi = [i for i, (l, r) in enumerate(g.prods) if l == lhs and r == rhs][0]
            d = len(rhs) - 2
            ok_all = True
            where = []
            for s in sorted(m):
                if (pi, d) in lalr.closures[s] or (pi, d) in lalr.kernels[s]:
                    pa = ply_action(dump, m[s], 'COMMA')
                    good = isinstance(pa, tuple) and pa[0] == 'shift'
                    if good:
                        # ... and after the COMMA the closing bracket is shiftable
                        nxt = pa[1]
                        pa2 = ply_action(dump, nxt, rhs[-1])
                        good = isinstance(pa2, tuple) and pa2[0] == 'shift'
                    ok_all = ok_all and good
                    where.append((m[s], str(pa)))
            obs.append(ob('C15:table:trailing-comma-reachable[%s -> %s]' % (lhs, ' '.join(rhs)), ['C15', 'C06'],
                          ok_all and bool(where), {'states': where}))
    info = {'explanation_grammar': 'independent LALR(1): %d states, %d cells of matched states, %d conflict cells; table dump %d states'
            % (len(lalr.kernels), n_cells, n_conf, len(dump['action'])),
            'assumed': ['A-LR-DRIVER: PLY\'s LR driver executes the dumped table faithfully (shift/reduce/goto, calls the bound p_* with the right slice, calls p_error with the first unshiftable token or None at end of input)',
                        'A-LR-SUBSET: a deterministic table obtained by deleting actions from the LALR(1) table of G accepts a subset of L(G) and builds the derivation selected by the deletions'],
            'grammar_time_s': round(time.time() - t0, 2)}
    return obs, info


extras.register(['C06', 'C15', 'C07', 'C08', 'C04'], grammar_obligations)
