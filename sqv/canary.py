"""Canaries (DESIGN 5.3): per property one deliberately false clause on a reachable path must be
refuted on every run, or the engine is not refuting anything."""
import z3
from . import logic as L
from .engine import Task
from .symex import Env


def tasks(engine, prop):
    if not prop:
        # the all-properties run (relock, screening): one canary task per property
        return [t for p in ['C%02d' % i for i in range(1, 21)] for t in tasks(engine, p)]

    def setup(ex):
        return {'env': Env(), 'entry': ex.heap.copy()}

    def body(ex, ctx):
        x = z3.Int('canary_x')
        r = z3.Int('canary_ref')
        ex.assume(x >= 0)
        h = ex.heap
        # false: a list one longer than a list of length x >= 0 has length x + 2
        h.set('LLEN', z3.Store(h.arr('LLEN'), r, x + 1))
        ex.prove('%s:CANARY:true-clause-must-be-proved' % prop, [prop], h.llen(r) > x)
        ex.prove('%s:CANARY:static-false-clause-must-be-refuted' % prop, [prop], False)
        ex.prove('%s:CANARY:symbolic-false-clause-must-be-refuted' % prop, [prop], h.llen(r) == x + 2)
        return L.NoneV
    t = Task('canary:%s' % prop, 'canary', None, setup, [], None)
    t.body = body
    return [t]
