"""development runner:  python3-vt -m sqv.dev <substring-of-task-label> [--props C01,C02]"""
import sys, time, json
sys.path.insert(0, '/verif')
from sqv.engine import Engine


def build(props=None):
    eng = Engine(props_filter=props)
    import contracts.scoped_dict as sd
    import contracts.ast_ops as ao
    import contracts.functions as fu
    import contracts.sq_parser as sp
    import contracts.lexer as lx
    import contracts.rules as ru
    mods = [sd, ao, fu, sp, lx, ru]
    for m in mods:
        eng.contracts.update(m.contracts(eng))
    tasks = []
    for m in mods:
        tasks.extend(m.tasks(eng))
    return eng, tasks


def main():
    pat = sys.argv[1] if len(sys.argv) > 1 else ''
    props = None
    for a in sys.argv[2:]:
        if a.startswith('--props'):
            props = a.split('=')[1].split(',')
    eng, tasks = build(props)
    tot = [0, 0, 0]
    for t in tasks:
        if pat not in t.label:
            continue
        t0 = time.time()
        r = eng.run_task(t)
        bad = [o for o in r.obligations if o.status != 'proved']
        names = {}
        for o in r.obligations:
            names.setdefault(o.name, []).append(o.status)
        print('%-60s paths=%d dead=%d obl=%d distinct=%d bad=%d undecided=%s errors=%d  %.1fs' % (
            t.label.split(':')[1], r.paths, r.dead_paths, len(r.obligations), len(names), len(bad), r.undecided, len(r.errors), time.time() - t0))
        for e in r.errors[:2]:
            print('   ERROR', e[-1500:])
        shown = set()
        for o in bad:
            if o.name in shown:
                continue
            shown.add(o.name)
            print('   %s %s path=%s model=%s info=%s' % (o.status.upper(), o.name, o.path, o.model, {k: v for k, v in (o.info or {}).items() if k not in ('smt2', 'watch')}))


if __name__ == '__main__':
    main()
