"""Replay of a refuted obligation on the real code (DESIGN 4.2).

The counter-model is turned into a concrete scenario by a template chosen by obligation name
(contracts/replays.py); the scenario is a small Python program run by /venv/bin/python against a
scratch copy of the tree the VCs came from.  It prints one JSON line {"violated": bool, ...}."""
import hashlib
import json
import os
import re
import shutil
import subprocess
import sys
import tempfile

ROOT = os.path.dirname(os.path.dirname(os.path.abspath(__file__)))
NATIVE_PY = '/venv/bin/python'


def run_native(program, repo, timeout=120):
    tmp = tempfile.mkdtemp(prefix='sqv_replay_')
    try:
        shutil.copytree(os.path.join(repo, 'smartquery'), os.path.join(tmp, 'smartquery'))
        prog = os.path.join(tmp, 'scenario.py')
        with open(prog, 'w') as f:
            f.write(program)
        env = dict(os.environ)
        env['PYTHONPATH'] = tmp
        env['PYTHONDONTWRITEBYTECODE'] = '1'
        p = subprocess.run([NATIVE_PY, prog], cwd=tmp, env=env, capture_output=True, text=True, timeout=timeout)
        res = None
        for line in reversed(p.stdout.strip().splitlines()):
            try:
                res = json.loads(line)
                break
            except ValueError:
                continue
        return {'exit': p.returncode, 'stdout': p.stdout[-4000:], 'stderr': p.stderr[-4000:], 'result': res}
    except subprocess.TimeoutExpired:
        return {'exit': None, 'stdout': '', 'stderr': 'timeout', 'result': None}
    finally:
        shutil.rmtree(tmp, ignore_errors=True)


def attempt(prop, name, inst, repo):
    try:
        from contracts import replays
        programs = replays.programs_for(prop, name, inst)
    except Exception as e:          # a broken template must not turn into a verdict
        programs = []
        inst = dict(inst)
        inst['template_error'] = '%s: %s' % (type(e).__name__, e)
    runs = []
    reproduced = False
    for title, program in programs:
        r = run_native(program, repo)
        runs.append({'title': title, 'program': program, 'native': r})
        if r['result'] and r['result'].get('violated'):
            reproduced = True
            break
    h = hashlib.sha256((prop + name).encode()).hexdigest()[:12]
    rel = 'replays/%s-%s.json' % (prop, h)
    doc = {'property': prop, 'obligation': name, 'function': inst.get('func'), 'path': inst.get('path'),
           'verifier_model': inst.get('model'), 'verifier_info': {k: v for k, v in (inst.get('info') or {}).items() if k != 'smt2'},
           'solver_output': 'sat (z3): the negated clause is satisfiable under the path condition' if not inst.get('static')
                            else 'structural obligation evaluated to false on the extracted source',
           'smt2': (inst.get('info') or {}).get('smt2'),
           'reproduced_natively': reproduced, 'runs': runs,
           'how_to_rerun': './check %s --replay %s' % (prop, rel)}
    os.makedirs(os.path.join(ROOT, 'replays'), exist_ok=True)
    with open(os.path.join(ROOT, rel), 'w') as f:
        json.dump(doc, f, indent=1)
    return {'path': rel, 'reproduced': reproduced}


def rerun(path):
    with open(os.path.join(ROOT, path) if not os.path.isabs(path) else path) as f:
        doc = json.load(f)
    repo = os.environ.get('SQ_REPO', '/repo')
    any_v = False
    for r in doc.get('runs', []):
        res = run_native(r['program'], repo)
        print(r['title'], '->', res['result'], res['stderr'][-300:] if not res['result'] else '')
        if res['result'] and res['result'].get('violated'):
            any_v = True
    if not doc.get('runs'):
        print('no native scenario recorded; obligation:', doc['obligation'])
        print('verifier model:', doc.get('verifier_model'))
    if any_v:
        print('VIOLATION property=%s replay=%s' % (doc['property'], path))
        return 1
    return 0
