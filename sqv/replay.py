"""Replay of a refuted obligation on the real code (DESIGN 4.2).

The counter-model is turned into a concrete scenario by a template chosen by obligation name
(contracts/replays.py); the scenario is a small Python program run by /venv/bin/python against a
scratch copy of the tree the VCs came from.  It prints one JSON line {"violated": bool, ...}."""
import hashlib
import json
import os
import re
import shutil
import subprocess
import sys
import tempfile

ROOT = os.path.dirname(os.path.dirname(os.path.abspath(__file__)))
NATIVE_PY = '/venv/bin/python'


def run_native(program, repo, timeout=120):
    tmp = tempfile.mkdtemp(prefix='sqv_replay_')
    try:
        shutil.copytree(os.path.join(repo, 'smartquery'), os.path.join(tmp, 'smartquery'))
        prog = os.path.join(tmp, 'scenario.py')
        with open(prog, 'w') as f:
            f.write(program)
        env = dict(os.environ)
        env['PYTHONPATH'] = tmp
        env['PYTHONDONTWRITEBYTECODE'] = '1'
        p = subprocess.run([NATIVE_PY, prog], cwd=tmp, env=env, capture_output=True, text=True, timeout=timeout)
        res = None
        for line in reversed(p.stdout.strip().splitlines()):
            try:
                res = json.loads(line)
                break
            except ValueError:
                continue
        return {'exit': p.returncode, 'stdout': p.stdout[-4000:], 'stderr': p.stderr[-4000:], 'result': res}
    except subprocess.TimeoutExpired:
        return {'exit': None, 'stdout': '', 'stderr': 'timeout', 'result': None}
    finally:
        shutil.rmtree(tmp, ignore_errors=True)


_oracle_cache = {}


def run_oracle(prop, repo, seed=0, budget='quick', timeout=600):
    """native bounded search for a failing input of the property on the real code of `repo`"""
    key = (prop, repo, seed, budget)
    if key in _oracle_cache:
        return _oracle_cache[key]
    tmp = tempfile.mkdtemp(prefix='sqv_oracle_')
    try:
        shutil.copytree(os.path.join(repo, 'smartquery'), os.path.join(tmp, 'smartquery'))
        env = dict(os.environ)
        env['PYTHONPATH'] = tmp
        env['PYTHONDONTWRITEBYTECODE'] = '1'
        script = os.path.join(ROOT, 'sqv', 'native', 'oracles.py')
        try:
            p = subprocess.run([NATIVE_PY, script, prop, str(seed), budget], cwd=tmp, env=env, capture_output=True,
                               text=True, timeout=timeout)
            res = None
            for line in reversed(p.stdout.strip().splitlines()):
                try:
                    res = json.loads(line)
                    break
                except ValueError:
                    continue
            out = {'exit': p.returncode, 'result': res, 'stderr': p.stderr[-2000:]}
        except subprocess.TimeoutExpired:
            out = {'exit': None, 'result': None, 'stderr': 'timeout'}
    finally:
        shutil.rmtree(tmp, ignore_errors=True)
    _oracle_cache[key] = out
    return out


def attempt(prop, name, inst, repo):
    try:
        from contracts import replays
        programs = replays.programs_for(prop, name, inst)
    except Exception as e:          # a broken template must not turn into a verdict
        programs = []
        inst = dict(inst)
        inst['template_error'] = '%s: %s' % (type(e).__name__, e)
    runs = []
    reproduced = False
    for title, program in programs:
        r = run_native(program, repo)
        runs.append({'title': title, 'program': program, 'native': r})
        if r['result'] and r['result'].get('violated'):
            reproduced = True
            break
    oracle = None
    if not reproduced:
        o = run_oracle(prop, repo, int(os.environ.get('VERIF_SEED', '0') or 0))
        r = o.get('result')
        if r and r.get('failures'):
            reproduced = True
            oracle = {'failing_inputs': r['failures'][:5], 'cases': r['cases'],
                      'how': 'bounded native search of the property neighbourhood on the real code (sqv/native/oracles.py %s)' % prop}
        elif r is not None:
            oracle = {'failing_inputs': [], 'cases': r['cases'], 'oracle_error': r.get('oracle_error')}
    h = hashlib.sha256((prop + name).encode()).hexdigest()[:12]
    rel = 'replays/%s-%s.json' % (prop, h)
    doc = {'property': prop, 'obligation': name, 'function': inst.get('func'), 'path': inst.get('path'),
           'verifier_model': inst.get('model'), 'verifier_info': {k: v for k, v in (inst.get('info') or {}).items() if k != 'smt2'},
           'solver_output': 'sat (z3): the negated clause is satisfiable under the path condition' if not inst.get('static')
                            else 'structural obligation evaluated to false on the extracted source',
           'smt2': (inst.get('info') or {}).get('smt2'),
           'reproduced_natively': reproduced, 'runs': runs, 'native_search': oracle,
           'how_to_rerun': './check %s --replay %s' % (prop, rel)}
    outdir = os.environ.get('SQV_OUT', ROOT)
    os.makedirs(os.path.join(outdir, 'replays'), exist_ok=True)
    with open(os.path.join(outdir, rel), 'w') as f:
        json.dump(doc, f, indent=1)
    return {'path': rel, 'reproduced': reproduced}


def rerun(path):
    with open(os.path.join(ROOT, path) if not os.path.isabs(path) else path) as f:
        doc = json.load(f)
    repo = os.environ.get('SQ_REPO', '/repo')
    any_v = False
    for r in doc.get('runs', []):
        res = run_native(r['program'], repo)
        print(r['title'], '->', res['result'], res['stderr'][-300:] if not res['result'] else '')
        if res['result'] and res['result'].get('violated'):
            any_v = True
    if doc.get('native_search') and doc['native_search'].get('failing_inputs'):
        o = run_oracle(doc['property'], repo, int(os.environ.get('VERIF_SEED', '0') or 0))
        r = o.get('result') or {}
        for f in (r.get('failures') or [])[:3]:
            print('failing input:', json.dumps(f)[:500])
        any_v = any_v or bool(r.get('failures'))
    if not doc.get('runs') and not doc.get('native_search'):
        print('no native scenario recorded; obligation:', doc['obligation'])
        print('verifier model:', doc.get('verifier_model'))
    if any_v:
        print('VIOLATION property=%s replay=%s' % (doc['property'], path))
        return 1
    return 0
