"""Data-structure (type) invariants of the package's classes and of the PLY objects it touches.

These are contracts: they are ASSUMED when a field is read from an object whose class is
known and ASSERTED where objects are built (dataclass constructors called by the p_* actions,
SqParser.eval, ...), see contracts/rules.py G3 and families.TreeShape.
"""
import z3
from . import logic as L
from .logic import Val


class Ty:
    def __init__(self, kind, arg=None, owned=False):
        self.kind = kind       # 'any' 'plain' 'int' 'str' 'scalar' 'op' 'obj' 'list' 'dict' 'tuple2op' 'opt_obj'
        self.arg = arg
        self.owned = owned

    def __repr__(self):
        return 'Ty(%s,%s)' % (self.kind, self.arg)


ANY = Ty('any')
INT = Ty('int')
STR = Ty('str')
SCALAR = Ty('scalar')
OP = Ty('obj', 'Op')
PLAIN = Ty('plain')


def OBJ(c):
    return Ty('obj', c)


def LIST(elem, owned=False):
    return Ty('list', elem, owned)


EXT_CLASSES = ['LexToken', 'Lexer', 'YaccProduction', 'LRParser', 'YaccSymbol', 'SqParserCache']

FIELDS = {
    ('VMState', 'names'): OBJ('ScopedDict'),
    ('VMState', 'ops_evaluated'): INT,
    ('VMState', 'max_ops_evaluated'): INT,
    ('ScopedDict', 'scopes'): LIST(Ty('dict')),
    ('ValueOp', 'v'): SCALAR,
    ('CodeOp', 'lines'): LIST(OP, owned=True),
    ('BinOp', 'op'): STR, ('BinOp', 'op1'): OP, ('BinOp', 'op2'): OP,
    ('UnaryOp', 'op'): STR, ('UnaryOp', 'op1'): OP,
    ('AssignOp', 'name'): STR, ('AssignOp', 'value'): OP,
    ('ShortOp', 'name'): STR, ('ShortOp', 'op'): STR, ('ShortOp', 'value'): OP,
    ('NameOp', 'name'): STR,
    ('IfExprOp', 'cond'): OP, ('IfExprOp', 'op1'): OP, ('IfExprOp', 'op2'): OP,
    ('SliceOp', 'start'): OP, ('SliceOp', 'stop'): OP, ('SliceOp', 'step'): OP,
    ('CallOp', 'name'): STR, ('CallOp', 'args'): LIST(OP, owned=True),
    ('DictOp', 'd'): LIST(Ty('tuple2op'), owned=True),
    ('LambdaOp', 'args'): LIST(OBJ('NameOp'), owned=True), ('LambdaOp', 'expr'): OP,   # parameters are names (arglist_def)
    # PLY objects
    ('LexToken', 'value'): ANY, ('LexToken', 'type'): STR, ('LexToken', 'lexer'): OBJ('Lexer'),
    ('LexToken', 'lineno'): INT, ('LexToken', 'lexpos'): INT,
    ('Lexer', 'lineno'): INT, ('Lexer', 'paren_count'): INT, ('Lexer', 'lexpos'): INT, ('Lexer', 'ast'): ANY,
    ('YaccProduction', 'lexer'): OBJ('Lexer'), ('YaccProduction', 'slice'): LIST(OBJ('YaccSymbol')),
    ('YaccSymbol', 'type'): STR, ('YaccSymbol', 'value'): ANY,
    ('SqParser', 'lex'): OBJ('Lexer'), ('SqParser', 'yacc'): OBJ('LRParser'), ('SqParser', 'parse_cache'): ANY,
}


class Shapes:
    def __init__(self, src):
        self.src = src
        self.class_id = {}
        for c in list(src.classes) + EXT_CLASSES:
            self.class_id[c] = len(self.class_id) + 1

    def cid(self, c):
        return self.class_id[c]

    def concrete_subclasses(self, c):
        if c in self.src.classes:
            return self.src.subclasses(c)
        return [c]

    def is_instance(self, ref, c):
        return z3.Or([L.cls_of(ref) == self.cid(s) for s in self.concrete_subclasses(c)])

    def field_ty(self, cls, field):
        if cls in self.src.classes:
            for c in self.src.mro(cls):
                if (c, field) in FIELDS:
                    return FIELDS[(c, field)]
            # an abstract class: the field as its subclasses declare it, if they agree
            kinds = {}
            for c in self.src.subclasses(cls):
                if (c, field) in FIELDS:
                    t = FIELDS[(c, field)]
                    kinds[(t.kind, str(t.arg))] = t
            if len(kinds) == 1:
                return list(kinds.values())[0]
            return None
        return FIELDS.get((cls, field))

    # the formula "v has type ty" (shallow; element invariants are instantiated on element reads)
    def formula(self, ex, v, ty):
        k = ty.kind
        if k == 'any':
            return z3.BoolVal(True)
        if k == 'int':
            return L.is_Int(v)
        if k == 'str':
            return L.is_Str(v)
        if k == 'scalar':
            return L.is_scalar(v)
        if k == 'plain':
            return L.tag_plain(v)
        if k == 'dict':
            return L.is_Dict(v)
        if k == 'obj':
            return z3.And(L.is_Obj(v), self.is_instance(Val.oref(v), ty.arg))
        if k == 'list':
            f = L.is_List(v)
            if ty.owned:
                f = z3.And(f, L.node_owned(Val.lref(v)))
            return f
        if k == 'tuple2op':
            return z3.And(L.is_Tuple(v), ex.heap.llen(Val.tref(v)) == 2)
        raise ValueError(k)

    def assume(self, ex, v, ty):
        """assume the invariant for a value just read; register element types / protection"""
        if ty is None or ty.kind == 'any':
            return
        ex.assume(self.formula(ex, v, ty))
        if ty.kind == 'obj':
            ex.note_class(Val.oref(v), ty.arg)
        elif ty.kind == 'list':
            r = L.simp(Val.lref(v))
            ex.typed_refs[r.get_id()] = (r, ty.arg)
            ex.assume(ex.heap.llen(r) >= 0)
            if ty.owned:
                ex.protect(r)
        elif ty.kind == 'tuple2op':
            r = L.simp(Val.tref(v))
            ex.typed_refs[r.get_id()] = (r, OP)
            ex.protect(r)

    def elem_ty(self, ex, ref):
        t = ex.typed_refs.get(L.simp(ref).get_id())
        return t[1] if t else None
