"""Extraction of the real source (DESIGN 2.1).  Reads $SQ_REPO/smartquery/*.py with
ast.parse on every run; never imports the package."""
import ast
import os
import hashlib

REPO = os.environ.get('SQ_REPO', '/repo')
MODULES = ['ast_ops', 'functions', 'scoped_dict', 'vm_state', 'utils', 'sq_parser', 'lexer',
           'rules', 'exceptions', 'custom_types']


class FuncInfo:
    def __init__(self, key, module, qual, node, cls=None, parent=None):
        self.key = key              # 'smartquery.ast_ops:BinOp.eval'
        self.module = module        # 'ast_ops'
        self.qual = qual            # 'BinOp.eval'
        self.node = node            # ast.FunctionDef | ast.Lambda
        self.cls = cls              # class name or None
        self.parent = parent        # enclosing FuncInfo for nested defs
        self.decorators = []
        if isinstance(node, ast.FunctionDef):
            for d in node.decorator_list:
                self.decorators.append(ast.unparse(d))

    @property
    def name(self):
        return self.qual.split('.')[-1]

    def params(self):
        a = self.node.args
        pos = [x.arg for x in a.posonlyargs + a.args]
        defaults = [None] * (len(pos) - len(a.defaults)) + list(a.defaults)
        return pos, defaults, (a.vararg.arg if a.vararg else None), (a.kwarg.arg if a.kwarg else None)

    def kwonly(self):
        """[(name, default expr or None)] of the keyword-only parameters"""
        a = self.node.args
        return [(x.arg, d) for x, d in zip(a.kwonlyargs, a.kw_defaults)]

    def body(self):
        if isinstance(self.node, ast.Lambda):
            return [ast.Return(value=self.node.body)]
        body = self.node.body
        # drop the docstring (PLY grammar/regex docstrings are kept separately)
        if body and isinstance(body[0], ast.Expr) and isinstance(body[0].value, ast.Constant) \
                and isinstance(body[0].value.value, str):
            body = body[1:]
        return body

    def is_generator(self):
        if not isinstance(self.node, ast.FunctionDef):
            return False
        for n in ast.walk(self.node):
            if isinstance(n, (ast.Yield, ast.YieldFrom)):
                # yields of nested functions do not count
                return self._owns(n)
        return False

    def _owns(self, target):
        def visit(node, top):
            for ch in ast.iter_child_nodes(node):
                if isinstance(ch, (ast.FunctionDef, ast.Lambda)) and not top:
                    continue
                if ch is target:
                    return True
                if isinstance(ch, (ast.FunctionDef, ast.Lambda)):
                    continue
                if visit(ch, False):
                    return True
            return False
        return visit(self.node, True)

    def docstring(self):
        if isinstance(self.node, ast.FunctionDef):
            return ast.get_docstring(self.node, clean=False)
        return None


class ClassInfo:
    def __init__(self, name, module, node):
        self.name = name
        self.module = module
        self.node = node
        self.bases = [ast.unparse(b) for b in node.bases]
        self.is_dataclass = any(ast.unparse(d).split('(')[0] == 'dataclass' for d in node.decorator_list)
        self.fields = []            # [(name, default_expr_or_None)] in order (own only)
        self.methods = {}
        for st in node.body:
            if isinstance(st, ast.AnnAssign) and isinstance(st.target, ast.Name):
                self.fields.append((st.target.id, st.value))
            elif isinstance(st, ast.FunctionDef):
                self.methods[st.name] = st


class MissingFunction(KeyError):
    """a function the contracts speak about is not in the source any more (renamed, removed, merged)"""


class FuncTable(dict):
    def __missing__(self, key):
        raise MissingFunction(key)


class Source:
    def __init__(self, repo=None):
        self.repo = repo or REPO
        self.trees = {}
        self.text = {}
        self.funcs = FuncTable()        # key -> FuncInfo
        self.classes = {}      # name -> ClassInfo
        self.globals = {}      # module -> {name: ('const', ast expr) | ('import', dotted) | ('func', key) | ('class', name)}
        self.module_assign_targets = {}   # module -> set of global names assigned at module level
        self.functions_table = {}         # FUNCTIONS entries: name -> ast expr
        self.mutable_globals = {}         # module -> names some function rebinds through a `global` statement
        self.digest = hashlib.sha256()
        for m in MODULES:
            path = os.path.join(self.repo, 'smartquery', m + '.py')
            with open(path) as f:
                txt = f.read()
            self.text[m] = txt
            self.digest.update(txt.encode())
            self.trees[m] = ast.parse(txt, filename=path)
            self._index_module(m)
        self.source_digest = self.digest.hexdigest()[:16]

    # -- indexing -------------------------------------------------------------
    def _index_module(self, m):
        g = {}
        self.globals[m] = g
        tree = self.trees[m]
        self.mutable_globals[m] = {n for st in ast.walk(tree) if isinstance(st, ast.Global) for n in st.names}
        for st in tree.body:
            if isinstance(st, ast.Import):
                for a in st.names:
                    g[a.asname or a.name.split('.')[0]] = ('import', a.name if a.asname else a.name.split('.')[0])
            elif isinstance(st, ast.ImportFrom):
                for a in st.names:
                    g[a.asname or a.name] = ('import', (st.module or '') + '.' + a.name)
            elif isinstance(st, ast.FunctionDef):
                key = 'smartquery.%s:%s' % (m, st.name)
                fi = FuncInfo(key, m, st.name, st)
                self.funcs[key] = fi
                g[st.name] = ('func', key)
                self._index_nested(fi)
            elif isinstance(st, ast.ClassDef):
                ci = ClassInfo(st.name, m, st)
                self.classes[st.name] = ci
                g[st.name] = ('class', st.name)
                for name, node in ci.methods.items():
                    key = 'smartquery.%s:%s.%s' % (m, st.name, name)
                    fi = FuncInfo(key, m, '%s.%s' % (st.name, name), node, cls=st.name)
                    self.funcs[key] = fi
                    self._index_nested(fi)
            elif isinstance(st, (ast.Assign, ast.AnnAssign)):
                targets = st.targets if isinstance(st, ast.Assign) else [st.target]
                for t in targets:
                    if isinstance(t, ast.Name) and isinstance(st.value, ast.Lambda) and len(targets) == 1:
                        # name = lambda ...: a function by another spelling
                        key = 'smartquery.%s:%s' % (m, t.id)
                        self.funcs[key] = FuncInfo(key, m, t.id, st.value)
                        g[t.id] = ('func', key)
                        continue
                    if isinstance(t, ast.Name) and st.value is not None:
                        g[t.id] = ('const', st.value)
                        if m == 'functions' and t.id == 'FUNCTIONS' and isinstance(st.value, ast.Dict):
                            for k, v in zip(st.value.keys, st.value.values):
                                if isinstance(k, ast.Constant):
                                    self.functions_table[k.value] = v
                                    if isinstance(v, ast.Lambda):
                                        key = 'smartquery.functions:FUNCTIONS[%r]' % k.value
                                        self.funcs[key] = FuncInfo(key, m, 'FUNCTIONS[%r]' % k.value, v)

    def _index_nested(self, fi):
        for node in ast.walk(fi.node):
            if node is fi.node:
                continue
            if isinstance(node, ast.FunctionDef):
                # only direct nesting depth 1 is used by the package
                key = fi.key + '.' + node.name
                if key not in self.funcs:
                    self.funcs[key] = FuncInfo(key, fi.module, fi.qual + '.' + node.name, node,
                                               cls=None, parent=fi)

    # -- queries --------------------------------------------------------------
    def func(self, key):
        return self.funcs[key]

    def mro(self, cls):
        """linearised bases inside the package (single inheritance only)."""
        out = []
        c = cls
        while c in self.classes:
            out.append(c)
            bases = [b for b in self.classes[c].bases if b in self.classes]
            c = bases[0] if bases else None
        return out

    def subclasses(self, cls):
        return [c for c in self.classes if cls in self.mro(c)]

    def find_method(self, cls, name):
        for c in self.mro(cls):
            if name in self.classes[c].methods:
                return self.funcs['smartquery.%s:%s.%s' % (self.classes[c].module, c, name)]
        return None

    def all_fields(self, cls):
        out = []
        for c in reversed(self.mro(cls)):
            out.extend(self.classes[c].fields)
        return out

    READ_ONLY_METHODS = ('get', 'keys', 'values', 'items', 'copy')

    def read_only_tables(self):
        """module-level dict literals that the whole package only ever READS: every occurrence of the name (in any
        module, also as module.NAME) is a subscript load, a membership test, a read-only method call, len(), an
        iteration or a ** unpack.  Such a table cannot be aliased or written (dynamic access to module
        attributes is excluded by the confinement scan of C02), so it is the same object with the same content
        throughout."""
        if getattr(self, '_ro_tables', None) is not None:
            return self._ro_tables
        cands = {}
        for m, g in self.globals.items():
            for name, (kind, v) in g.items():
                if kind == 'const' and isinstance(v, ast.Dict):
                    cands[name] = cands.get(name, 0) + 1
        bad = {n for n, k in cands.items() if k != 1}
        for m, tree in self.trees.items():
            parents = {}
            for p in ast.walk(tree):
                for c in ast.iter_child_nodes(p):
                    parents[id(c)] = p
            for n in ast.walk(tree):
                name = n.id if isinstance(n, ast.Name) else n.attr if isinstance(n, ast.Attribute) else None
                if name not in cands or name in bad:
                    continue
                p = parents.get(id(n))
                if isinstance(n.ctx, ast.Store):
                    # the one module-level definition (plain or annotated)
                    if isinstance(p, (ast.Assign, ast.AnnAssign)) and parents.get(id(p)) is tree:
                        continue
                    bad.add(name)
                    continue
                if isinstance(n.ctx, ast.Del):
                    bad.add(name)
                    continue
                ok = False
                if isinstance(p, ast.Subscript) and p.value is n and isinstance(p.ctx, ast.Load):
                    ok = True
                elif isinstance(p, ast.Compare) and n in p.comparators and all(isinstance(o, (ast.In, ast.NotIn)) for o in p.ops):
                    ok = True
                elif isinstance(p, ast.Attribute) and p.value is n and p.attr in self.READ_ONLY_METHODS \
                        and isinstance(parents.get(id(p)), ast.Call) and parents[id(p)].func is p:
                    ok = True
                elif isinstance(p, ast.Call) and isinstance(p.func, ast.Name) and p.func.id == 'len' and p.args == [n]:
                    ok = True
                elif isinstance(p, (ast.For, ast.comprehension)) and p.iter is n:
                    ok = True
                elif isinstance(p, ast.Dict) and n in p.values and p.keys[p.values.index(n)] is None:
                    ok = True          # {**TABLE}
                elif isinstance(p, ast.alias):
                    ok = True
                if not ok:
                    bad.add(name)
        self._ro_tables = {n for n in cands if n not in bad}
        return self._ro_tables

    def const(self, module, name):
        kind, v = self.globals[module][name]
        assert kind == 'const'
        return ast.literal_eval(v)

    def op_classes(self):
        return [c for c in self.classes if 'Op' in self.mro(c)]

    def exception_classes(self):
        out = {}
        for c, ci in self.classes.items():
            if ci.module == 'exceptions':
                out[c] = ci.bases[0] if ci.bases else 'Exception'
        return out


def grammar_alternatives(fi):
    """Split the PLY grammar docstring of a p_* function into [(lhs, [symbols], prec)]"""
    doc = fi.docstring() or ''
    alts = []
    lhs = None
    for line in doc.splitlines():
        toks = line.split()
        if not toks:
            continue
        if len(toks) >= 2 and toks[1] == ':':
            lhs = toks[0]
            rhs = toks[2:]
        elif toks[0] == '|':
            rhs = toks[1:]
        else:
            raise ValueError('unparsable grammar line %r in %s' % (line, fi.key))
        prec = None
        if '%prec' in rhs:
            k = rhs.index('%prec')
            prec = rhs[k + 1]
            rhs = rhs[:k]
        alts.append((lhs, rhs, prec))
    return alts
