"""Generic contract families (DESIGN 3 'Generic contracts', 2.4 TSI-1..7).

A family contributes, for every function it is attached to:
  * obligations at entry / at events (writes, calls, raises) / at normal and exceptional exit,
  * two-state invariants that are (a) assumed after every dynamic call (abstract Op.eval
    contract, universal callable contract), (b) used as loop invariants, (c) proved at exit.
Obligations carry property ids; a per-property check discharges its own and assumes the rest.
"""
import z3

from . import logic as L
from .logic import Val, I, B

CUR = z3.Int('CUR_STATE')            # ghost.cur_state: the VMState of the eval call in progress
CAP = z3.Int('CAP_B')                # B = max(10000, longest host/literal container or string)
MAX_ARRAY = 10000


def cur_names(h):
    return Val.oref(h.fld('names', CUR))


def cur_scopes(h):
    return Val.lref(h.fld('scopes', cur_names(h)))


def ops(h):
    return Val.i(h.fld('ops_evaluated', CUR))


def max_ops(h):
    return Val.i(h.fld('max_ops_evaluated', CUR))


def nodes(h):
    return h.ghost('nodes')


def G_FUNCTIONS():
    return z3.Int('G_functions_FUNCTIONS')


class Family:
    def __init__(self, ex):
        self.ex = ex

    def on_entry(self, ex, ctx):
        pass

    def on_event(self, ex, ev):
        pass

    def on_exit(self, ex, ctx, outcome):
        pass

    def before_call(self, ex, info):
        pass

    def after_call(self, ex, info):
        pass

    def loop_invariants(self, ex, env=None, names=()):
        return []

    def on_loop_havoc(self, ex):
        pass

    def assume_value(self, ex, v):
        pass


def fname(ex):
    import re
    return re.sub(r'\{(=[^}]*|other)\}$', '', ex.task.label.split(':')[-1])


# ---------------------------------------------------------------------------------------
class Budget(Family):
    """C01 / C07: ops charged == node evaluations started, on every exit (TSI-1, TSI-2)"""

    def on_entry(self, ex, ctx):
        self.ctx = ctx
        self.role = ex.task.role
        self.super_calls = 0
        if self.role in ('op_override', 'op_base_as_node'):
            # a node evaluation starts: ghost.nodes += 1
            ex.heap.g['nodes'] = nodes(ex.heap) + 1
        self.entry_nodes = nodes(ex.heap) - (1 if self.role in ('op_override', 'op_base_as_node') else 0)
        self.entry_ops = ops(ctx['entry'])

    def two_state(self, pre_ops, pre_nodes, h):
        return [('ops-delta-equals-nodes-delta', ops(h) - pre_ops == nodes(h) - pre_nodes),
                ('nodes-monotone', nodes(h) >= pre_nodes)]

    def before_call(self, ex, info):
        if info['kind'] == 'op_eval':
            args = info['args']
            ok = len(args) == 1 and isinstance(args[0], z3.ExprRef)
            if ok:
                ex.prove('C01:%s:child-evaluated-with-callers-state' % fname(ex), ['C01', 'C07'],
                         args[0] == L.ObjV(CUR))
            else:
                ex.prove('C01:%s:child-evaluated-with-callers-state' % fname(ex), ['C01', 'C07'], False)
            ex.prove('C01:%s:below-limit-before-child' % fname(ex), ['C01'], ops(ex.heap) < max_ops(ex.heap))

    def after_call(self, ex, info):
        pre = info['pre']
        for _, f in self.two_state(ops(pre), nodes(pre), ex.heap):
            ex.assume(f)
        if info['kind'] == 'op_eval':
            ex.assume(nodes(ex.heap) >= nodes(pre) + 1)
        if info['raised'] is None:
            ex.assume(z3.Implies(ops(pre) < max_ops(pre), ops(ex.heap) < max_ops(ex.heap)))
        else:
            ex.assume(z3.Implies(L.exc_is_sub(info['raised'], 'OpsExecutionLimitExceededError'),
                                 ops(ex.heap) >= max_ops(ex.heap)))
            # TSI-2b: a budget exhausted inside the call leaves it as the limit error, whatever is in between
            ex.assume(z3.Implies(z3.And(ops(pre) < max_ops(pre), ops(ex.heap) >= max_ops(ex.heap)),
                                 L.exc_is_sub(info['raised'], 'OpsExecutionLimitExceededError')))

    def on_event(self, ex, ev):
        kind = ev[0]
        if kind == 'super_call' and ev[1].endswith(':Op.eval'):
            self.super_calls += 1
            if self.role == 'op_override':
                prior = [e for e in ex.events[:-1] if e[0] not in ('field_read',)]
                ex.prove('C01:%s:charged-before-any-effect' % fname(ex), ['C01', 'C09'], not prior,
                         {'prior_events': [e[0] for e in prior]})
                args = ev[2]
                same = len(args) == 2 and isinstance(args[1], z3.ExprRef)
                ex.prove('C01:%s:charges-callers-state' % fname(ex), ['C01'],
                         (args[1] == L.ObjV(CUR)) if same else False)
        if kind in ('field_read', 'field_write') and ev[2] in ('ops_evaluated', 'max_ops_evaluated'):
            if not ex.task.key.endswith(':Op.eval') and not (kind == 'field_write' and self.fresh_obj_write(ex, ev)):
                ex.prove('C01:%s:budget-fields-touched-only-by-Op.eval[%s %s]' % (fname(ex), kind, ev[2]),
                         ['C01'], False)

    def fresh_obj_write(self, ex, ev):
        return False

    def on_exit(self, ex, ctx, outcome):
        tag = outcome[0]
        for name, f in self.two_state(self.entry_ops, self.entry_nodes, ex.heap):
            ex.prove('C01:%s:%s[%s]' % (fname(ex), name, tag), ['C01', 'C07'], f,
                     {'watch': {'ops_entry': self.entry_ops, 'ops_exit': ops(ex.heap),
                                'nodes_entry': self.entry_nodes, 'nodes_exit': nodes(ex.heap)}})
        if tag == 'return':
            ex.prove('C01:%s:below-limit-on-return' % fname(ex), ['C01'],
                     z3.Implies(self.entry_ops < max_ops(ex.heap), ops(ex.heap) < max_ops(ex.heap)))
        if tag == 'raise':
            ex.prove('C01:%s:exhausted-budget-leaves-as-the-limit-error' % fname(ex), ['C01', 'C16'],
                     z3.Implies(z3.And(self.entry_ops < max_ops(ex.heap), ops(ex.heap) >= max_ops(ex.heap)),
                                L.exc_is_sub(outcome[1], 'OpsExecutionLimitExceededError')))
        if self.role == 'op_override':
            ex.prove('C01:%s:charged-exactly-once[%s]' % (fname(ex), tag), ['C01', 'C07'], self.super_calls == 1,
                     {'super_calls': self.super_calls})

    def loop_invariants(self, ex, env=None, names=()):
        out = [(n, ['C01', 'C07'], f) for n, f in self.two_state(self.entry_ops, self.entry_nodes, ex.heap)]
        out.append(('below-limit', ['C01'], z3.Implies(self.entry_ops + (1 if self.role == 'op_override' else 0) <= max_ops(ex.heap) - 1,
                                                       ops(ex.heap) < max_ops(ex.heap))))
        return out


# ---------------------------------------------------------------------------------------
class Scopes(Family):
    """C10: the scope stack of the running evaluation is the same list of the same scope
    objects after every call (normal or exceptional); the builtin table is never written"""

    def on_entry(self, ex, ctx):
        self.entry = ctx['entry']
        self.exempt = ex.task.role in ('scoped_dict_method',)

    def two_state(self, pre, h):
        s = cur_scopes(pre)
        g = G_FUNCTIONS()
        K = z3.Int('K_view')      # skolem index: the views agree at every position
        return [('scope-stack-same-length', h.llen(s) == pre.llen(s)),
                ('scope-stack-same-objects', z3.Implies(z3.And(K >= 0, K < pre.llen(s)),
                                                        h.lelt(s, K) == pre.lelt(s, K))),
                ('builtin-table-unchanged', z3.And(h.dlen(g) == pre.dlen(g), h.arr('DHAS')[g] == pre.arr('DHAS')[g],
                                                   h.arr('DVAL')[g] == pre.arr('DVAL')[g]))]

    def after_call(self, ex, info):
        for _, f in self.two_state(info['pre'], ex.heap):
            ex.assume(f)
        # the callee's guarantee holds at every index; besides the skolem index the two bottom positions
        # (builtins copy, host names) are the ones specifications speak about directly
        pre, h = info['pre'], ex.heap
        s = cur_scopes(pre)
        for k in (0, 1):
            ex.assume(z3.Implies(pre.llen(s) > k, h.lelt(s, k) == pre.lelt(s, k)))

    def on_exit(self, ex, ctx, outcome):
        if self.exempt:
            return
        for n, f in self.two_state(self.entry, ex.heap):
            ex.prove('C10:%s:%s[%s]' % (fname(ex), n, outcome[0]), ['C10'], f)

    def loop_invariants(self, ex, env=None, names=()):
        if self.exempt:
            return []
        return [(n, ['C10'], f) for n, f in self.two_state(self.entry, ex.heap)]

    def on_event(self, ex, ev):
        if ev[0] == 'write' and ev[1] == 'dict':
            ref = ev[3]
            ex.prove('C10:%s:never-writes-builtin-table[%s]' % (fname(ex), ev[2]), ['C10'], ref != G_FUNCTIONS())


# ---------------------------------------------------------------------------------------
def langval_parts(ex, v, h=None):
    """the invariant of every value that flows through an evaluation, split by property"""
    h = h or ex.heap
    lr, dr, tr = Val.lref(v), Val.dref(v), Val.tref(v)
    return {
        'C02': L.tag_plain(v),
        'C17': z3.And(z3.Implies(L.is_List(v), z3.Not(L.node_owned(lr))),
                      z3.Implies(L.is_Tuple(v), z3.Not(L.node_owned(tr)))),
        'C10': z3.And(z3.Implies(L.is_Dict(v), dr != G_FUNCTIONS()),
                      z3.Implies(L.is_List(v), lr != cur_scopes(h))),
        'C03': z3.And(z3.Implies(L.is_List(v), z3.And(h.llen(lr) >= 0, h.llen(lr) <= CAP)),
                      z3.Implies(L.is_Tuple(v), z3.And(h.llen(tr) >= 0, h.llen(tr) <= CAP)),
                      z3.Implies(L.is_Dict(v), z3.And(h.dlen(dr) >= 0, h.dlen(dr) <= CAP))),
    }


def langval(ex, v, h=None):
    return z3.And(list(langval_parts(ex, v, h).values()))


def made_by(ex, v):
    """which writes of this activation produced the container v (path signature for findings)"""
    v = L.simp(v)
    if not (z3.is_app(v) and v.decl().name() in ('ListV', 'DictV', 'TupleV')):
        return 'value'
    ref = v.arg(0)
    kinds = []
    for e in ex.events:
        if e[0] == 'write' and ex.same(e[3], ref) and e[2] not in kinds:
            kinds.append(e[2])
    return '+'.join(kinds) if kinds else 'pre-existing'


SAFE_ORIGINS = ('from', 'str1', 'strs', 'strs-or-none', 'strs-or-str-tuples', 'perm', 'deepcopy', 'pairs',
                'dict-values', 'dict-items', 'from-array', 'ucc-results', 'from2')


class Values(Family):
    """C02 plain data, C03 size cap, C13 no direct writes to pre-existing objects (non-mutators),
    C17 no write to node-owned lists: checked at every write, every return, every call"""

    MUTATORS = {'push', 'pop', 'insert', 'remove', '__setitem__', '__setitem_with_op__', '__delitem__'}

    def on_entry(self, ex, ctx):
        self.ctx = ctx
        self.role = ex.task.role
        ex.assume(CAP >= MAX_ARRAY)
        self.builtin_name = ctx.get('builtin_name')
        self.is_mutator = self.builtin_name in self.MUTATORS if self.builtin_name else None

    def assume_value(self, ex, v):
        ex.assume(langval(ex, v))

    def before_call(self, ex, info):
        if info['kind'] == 'ucc':
            from .calls import Pack
            for k, a in enumerate(info['args']):
                if isinstance(a, Pack):
                    continue
                a = ex.to_val(a)
                parts = langval_parts(ex, a)
                ex.prove('C02:%s:callable-gets-plain-arguments' % fname(ex), ['C02'], parts['C02'])
                ex.prove('C03:%s:callable-gets-containers-within-cap' % fname(ex), ['C03'], parts['C03'])
                ex.prove('C17:%s:callable-never-gets-a-tree-owned-list' % fname(ex), ['C17'], parts['C17'])

    def after_call(self, ex, info):
        ex.assume(langval(ex, info['result']))

    def loop_invariants(self, ex, env=None, names=()):
        out = []
        if self.role not in ('op_override', 'builtin', 'closure'):
            return out
        for n in sorted(names):
            v = env.lookup(n) if env is not None and env.has(n) else None
            if isinstance(v, z3.ExprRef) and v.sort() == Val:
                for p, f in langval_parts(ex, v).items():
                    out.append(('local-%s-holds-a-language-value[%s]' % (n, p), [p], f))
        return out

    def on_exit(self, ex, ctx, outcome):
        if outcome[0] != 'return':
            return
        if self.role not in ('op_override', 'builtin', 'closure', 'helper_value'):
            return
        v = outcome[1]
        parts = langval_parts(ex, v)
        watch = {'watch': {'result': v}}
        unknown = any(u.eq(v) for u in ex.unknown_vals)
        made = made_by(ex, v)
        ex.prove('C02:%s:result-is-plain-data' % fname(ex), ['C02'], parts['C02'], watch)
        # C01 (and C09): everything a program does happens while it is evaluated - no iterator / generator / view whose
        # elements are computed after the call has returned
        lazy = z3.And(L.is_Opaque(v), z3.Or([Val.okind(v) == L.OK[k] for k in ('iterator', 'generator', 'view')]))
        ex.prove('C01:%s:result-holds-no-deferred-computation' % fname(ex), ['C01', 'C09'], z3.Not(lazy), watch)
        ex.prove('C17:%s:result-never-aliases-the-tree' % fname(ex), ['C17'], parts['C17'], watch)
        ex.prove('C10:%s:builtin-table-does-not-escape' % fname(ex), ['C10'], parts['C10'], watch)
        ex.prove('C03:%s:result-within-cap[%s]' % (fname(ex), made), ['C03'], parts['C03'], watch, soft=True)

    def on_event(self, ex, ev):
        kind = ev[0]
        if kind == 'write':
            _, what, wkind, ref, old_len, new_len, stored = ev
            if wkind.startswith('scope-'):
                return        # the scope stack and the scope dicts are not language values
            fn = fname(ex)
            fresh = ex.is_fresh(ref)
            info = {'watch': {'old_len': old_len, 'new_len': new_len, 'target': ref}}
            # C03: TSI-6 for containers the program can already see; containers this activation
            # allocated are checked where they escape (returned, stored, handed to a callable)
            ex.prove('C03:%s:length-within-cap-after-%s' % (fn, wkind), ['C03'], z3.Or(fresh, new_len <= CAP), info, soft=True)
            # C02: TSI-7 stored values are plain
            for sv in stored:
                ex.prove('C03:%s:stored-container-within-cap[%s of %s]' % (fn, wkind, made_by(ex, sv)), ['C03'],
                         langval_parts(ex, sv)['C03'], {'watch': {'stored': sv}}, soft=True)
                ex.prove('C02:%s:stores-only-plain-data[%s]' % (fn, wkind), ['C02'], L.tag_plain(sv),
                         {'watch': {'stored': sv}}, soft=True)
                ex.prove('C17:%s:stores-no-tree-owned-list[%s]' % (fn, wkind), ['C17'],
                         langval_parts(ex, sv)['C17'], {'watch': {'stored': sv}}, soft=True)
            if what == 'list':
                base_kind = wkind.split('<')[0]
                elts = L.simp(ex.heap.lelts(ref)) if base_kind in ('list()', 'tuple()', 'display', 'sorted()', 'findall', 'split', 'slice-copy', 'repeat', 'concat', 'copy') else None
                arr = elts
                if arr is not None:
                    org = ex.array_origin.get(arr.get_id())
                    if org is not None:
                        o = org[1] if isinstance(org[1], str) else org[1][0]
                        ex.prove('C02:%s:bulk-elements-are-plain[%s]' % (fn, wkind), ['C02'], o in SAFE_ORIGINS,
                                 {'origin': str(o)}, soft=True)
                # C17: TSI-5
                ex.prove('C17:%s:never-writes-a-tree-owned-list[%s]' % (fn, wkind), ['C17'],
                         z3.Or(fresh, z3.Not(L.node_owned(ref))), info, soft=True)
            # C13 / C12: the evaluator itself changes a container a program can already see only by the in-place
            # operator of a compound assignment (a direct mutating operation on the named variable)
            if self.role in ('op_override', 'closure') and not (self.ctx.get('cls') == 'ShortOp' and wkind in ('iadd', 'imul')):
                ex.prove('C13:%s:evaluator-writes-only-containers-it-allocated[%s]' % (fn, wkind), ['C13', 'C12', 'C14'], fresh, info, soft=True)
            # C13: W1
            if self.role == 'builtin' and self.is_mutator is False:
                ex.prove('C13:%s:writes-only-objects-it-allocated[%s]' % (fn, wkind), ['C13'], fresh, info, soft=True)
        elif kind == 'dict_subscript':
            if self.role == 'builtin' and self.is_mutator is False and self.builtin_name != '__getitem__':
                _, r, key, fresh, present = ev
                # only the mappings the builtin was GIVEN (its own parameters), not whatever a callback is applied to
                is_arg = any(isinstance(a, z3.ExprRef) and ex.same(a, L.DictV(r)) for a in self.ctx.get('args', []))
                if is_arg:
                    ex.prove('C13:%s:a-mapping-argument-is-subscripted-only-where-the-key-is-present' % fname(ex), ['C13'],
                             z3.BoolVal(bool(present)), soft=True)
        elif kind == 'unknown_call':
            fn = fname(ex)
            ex.prove('C02:%s:no-unmodelled-call[%s]' % (fn, ev[1]), ['C02'], False, {'call': ev[1]})
            if (self.role == 'builtin' and self.is_mutator is False) or self.role in ('op_override', 'closure'):
                # code without a contract or stub may change any container it can reach
                ex.prove('C13:%s:no-unmodelled-call[%s]' % (fn, ev[1]), ['C13', 'C12', 'C14'], False, {'call': ev[1]})
            if self.role in ('op_override', 'closure', 'op_base_as_node') and not str(ev[1]).endswith('-on-opaque'):
                # ... and, inside the evaluator, the tree it is walking and the VM state
                ex.prove('C17:%s:no-unmodelled-call-inside-the-evaluator[%s]' % (fn, ev[1]), ['C17', 'C11', 'C06', 'C07', 'C01', 'C10'], False,
                         {'call': ev[1]})
        elif kind == 'forbidden_call':
            ex.prove('C02:%s:no-io-or-dynamic-code[%s]' % (fname(ex), ev[1]), ['C02'], False, {'call': ev[1]})
        elif kind == 'field_write':
            _, ref, name, value = ev
            allowed = ex.task.allowed_field_writes if hasattr(ex.task, 'allowed_field_writes') else ()
            if name not in allowed:
                ex.prove('C17:%s:writes-no-field-of-a-pre-existing-object[%s]' % (fname(ex), name),
                         ['C17', 'C11', 'C01', 'C06', 'C07'], ex.is_fresh(ref), {'watch': {'object': ref}})


# ---------------------------------------------------------------------------------------
class Raises(Family):
    """C16 X6: whatever escapes is an ordinary Exception"""

    def on_exit(self, ex, ctx, outcome):
        if outcome[0] == 'raise':
            cls = outcome[1]
            ex.prove('C16:%s:only-raises-ordinary-exceptions' % fname(ex), ['C16'],
                     L.exc_is_sub(cls, 'Exception'), {'watch': {'exc': cls if not isinstance(cls, int) else z3.IntVal(cls)}})

    def after_call(self, ex, info):
        pass


# ---------------------------------------------------------------------------------------
NUMERIC_BUILTINS = {'int', 'float', 'round', 'floor', 'ceil', 'abs', 'sum', 'min', 'max'}


def max_digits(vals):
    """digits of the widest NUMERIC value among vals"""
    m = z3.IntVal(0)
    for v in vals:
        d = z3.If(L.is_numeric(v), L.digits_of(v), 0)
        m = z3.If(d > m, d, m)
    return m


class Digits(Family):
    """C04: multiplication / exponentiation only on Decimals (N1); no numeric operator or numeric builtin
    returns more significant digits than max(28, 1 + its widest numeric argument), float() exempt (N2).
    C08 E2: Decimal operands never produce a binary float."""

    def on_entry(self, ex, ctx):
        self.ctx = ctx
        self.role = ex.task.role
        self.name = ctx.get('builtin_name')

    def on_event(self, ex, ev):
        if ev[0] == 'prim' and ev[1] == 'binop':
            _, _, op, a, b, inplace, r = ev
            n = fname(ex)
            if op in ('*', '**'):
                ex.prove('C04:%s:%s-only-on-Decimals-never-native' % (n, op), ['C04'],
                         z3.And(L.is_Dec(a), L.is_Dec(b)), {'watch': {'left': a, 'right': b}})
            if op in ('+', '-', '*', '/', '**'):
                ex.prove('C08:%s:%s-on-decimals-stays-decimal' % (n, op), ['C08'],
                         z3.Implies(z3.And(z3.Or(L.is_Dec(a), L.is_Dec(b)), z3.Not(L.is_Float(a)), z3.Not(L.is_Float(b))),
                                    L.is_Dec(r)))
        if ev[0] == 'float_of' and self.name != 'float':
            ex.prove('C08:%s:no-conversion-through-binary-float' % fname(ex), ['C08'], z3.Not(L.is_Dec(ev[1])),
                     {'watch': {'converted': ev[1]}})

    def inputs(self, ex, ctx):
        if self.role == 'op_override':
            vals = [e[4] for e in ex.events if e[0] == 'call' and e[1] == 'op_eval' and e[5] is None]
            vals += [e[3] for e in ex.events if e[0] == 'lookup' and e[3] is not None]
            return vals
        from .calls import Pack
        out = []
        for a in ctx.get('args', []):
            if isinstance(a, Pack):
                r = Val.tref(a.val)
                out.append(ctx['entry'].lelt(r, 0))        # floor / ceil take exactly one argument
                continue
            out.append(ex.to_val(a))
        return out

    def on_exit(self, ex, ctx, outcome):
        if outcome[0] != 'return':
            return
        relevant = (self.role == 'op_override' and ctx.get('cls') in ('BinOp', 'UnaryOp')) or \
                   (self.role == 'builtin' and self.name in NUMERIC_BUILTINS and self.name != 'float') or \
                   (self.role == 'helper' and ex.task.key.endswith('_multiply'))
        stores = []
        if self.role == 'op_override' and ctx.get('cls') == 'ShortOp':
            stores = [e[3] for e in ex.events if e[0] == 'store_name']
        if self.role == 'builtin' and self.name == '__setitem_with_op__':
            stores = [w[6][-1] for w in ex.events if w[0] == 'write' and w[2] in ('setitem', 'store') and w[6]]
        if not relevant and not stores:
            return
        ins = self.inputs(ex, ctx)
        if self.role == 'helper':
            ins = [ctx['a'], ctx['b']]
        results = stores if stores else [outcome[1]]
        if self.name in ('sum', 'min', 'max'):
            # list arguments: the widest element is what counts
            for e in ex.events:
                if e[0] == 'sum_of':
                    ins = ins + [L.UF('widest_elem', I, z3.ArraySort(I, Val), Val)(e[2], e[3])]
                if e[0] == 'elem_of':
                    ins = ins + [e[1]]
        if self.role == 'builtin':
            # the quantifier of N2: numeric arguments (a precision / key argument may be None or an int)
            all_num = L.is_numeric(ins[0]) if ins else z3.BoolVal(True)
        else:
            all_num = z3.And([L.is_numeric(v) for v in ins] or [z3.BoolVal(True)])
        if self.name in ('sum', 'min', 'max'):
            all_num = z3.BoolVal(True)
        for v in ins:
            ex.small_int_axioms(z3.If(L.is_Bool(v), z3.If(Val.b(v), 1, 0), Val.i(v)))
            ex.assume(z3.Implies(L.is_Dec(v), L.dec_digits(Val.d(v)) >= 1))
        for r in results:
            bound = max_digits([v for v in ins])
            lim = z3.If(bound + 1 > 28, bound + 1, 28)
            ex.prove('C04:%s:result-has-at-most-max(28,1+widest-argument)-digits' % fname(ex), ['C04'],
                     z3.Implies(z3.And(all_num, L.is_numeric(r), z3.Not(L.is_Float(r))), L.digits_of(r) <= lim),
                     {'watch': {'result': r, 'result_digits': L.digits_of(r), 'widest_argument_digits': bound}})
            if self.name != 'float':
                ex.prove('C08:%s:decimal-arguments-never-give-a-binary-float' % fname(ex), ['C08'],
                         z3.Implies(z3.And([z3.Or(L.is_Dec(v), L.is_Int(v), L.is_Bool(v)) for v in ins] +
                                           [z3.Or([L.is_Dec(v) for v in ins] or [z3.BoolVal(False)])]),
                                    z3.Not(L.is_Float(r))), {'watch': {'result': r}})


ALL_FAMILIES = [Budget, Scopes, Values, Raises, Digits]
