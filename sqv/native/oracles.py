"""Native property oracles, run by /venv/bin/python against a scratch copy of the tree (PYTHONPATH).

Two uses, both labelled BOUNDED and never counted as proved:
 * replay: when an obligation is refuted, the oracle of its property searches the neighbourhood of the
   property for a concrete failing input on the real code (VIOLATION ... replay=<file>);
 * bounded stand-ins of the thorough tier (DESIGN 9) and an independent CPython cross-check of the contracts.

    python oracles.py <property> <seed> <budget>   ->  one JSON line {"cases": n, "failures": [...]}
Inputs recorded as known findings (KNOWN_FINDINGS.jsonl) are skipped by construction.
"""
import copy
import json
import random
import sys
import time
import os
from decimal import Decimal
from fractions import Fraction

from smartquery import SqParser, ParserError
from smartquery.exceptions import OpsExecutionLimitExceededError
import smartquery.ast_ops as A
import smartquery.functions as Fn

FAIL = []
CASES = [0]


def fail(**kw):
    FAIL.append({k: (v if isinstance(v, (int, float, str, bool, type(None))) else repr(v)[:400]) for k, v in kw.items()})


def case():
    CASES[0] += 1


def run(p, src, **kw):
    try:
        return ('ok', p.eval(src, **kw))
    except OpsExecutionLimitExceededError as e:
        return ('limit', None)
    except ParserError as e:
        return ('parser_error', str(e))
    except Exception as e:
        return ('exc:' + type(e).__name__, str(e))


class Counter:
    """independent count of node evaluations started: wraps eval of every Op subclass from outside"""

    def __init__(self):
        self.n = 0
        self.saved = {}

    def __enter__(self):
        for name in dir(A):
            cls = getattr(A, name)
            if isinstance(cls, type) and issubclass(cls, A.Op) and 'eval' in cls.__dict__ and cls is not A.Op:
                orig = cls.__dict__['eval']
                self.saved[cls] = orig

                def wrapped(s, state, _o=orig):
                    self.n += 1
                    return _o(s, state)
                cls.eval = wrapped
        # classes inheriting Op.eval directly (NoOp)
        orig_base = A.Op.__dict__['eval']
        self.saved[A.Op] = orig_base
        counter = self

        def base(s, state):
            if 'eval' not in type(s).__dict__ or type(s) is A.Op:
                counter.n += 1
            return orig_base(s, state)
        A.Op.eval = base
        return self

    def __exit__(self, *a):
        for cls, orig in self.saved.items():
            cls.eval = orig


BUDGET_PROGRAMS = [
    ('1', {}), ('1 + 2 * 3', {}), ('x = 1; y = x + 1; y', {}), ('[1, 2, 3] | map(v => v + 1)', {}),
    ('{"a": 1, "b": 2}', {}), ('f = (a, b) => a + b; f(1, 2)', {}), ('l | filter(v => v > 1) | len', {'l': [1, 2, 3]}),
    ('reduce(l, (a, b) => a + b)', {'l': [1, 2, 3, 4]}), ('sorted(l, v => 0 - v)', {'l': [3, 1, 2]}),
    ('a if c else b', {'a': 1, 'b': 2, 'c': False}), ('not a and b or c', {'a': 0, 'b': 1, 'c': 2}),
    ('l[0:2]', {'l': [1, 2, 3]}), ('l[1] = 5; l', {'l': [1, 2, 3]}), ('d["k"] += 1; d', {'d': {'k': 1}}),
    ('h(v => v * 2)', {'h': lambda f: [f(1), f(2)]}), ('fact = n => 1 if n < 2 else n * fact(n - 1); fact(5)', {}),
    ('del l[0]; l', {'l': [1, 2]}), ('x = 5; x -= 2; -x', {}), ('# only a comment', {}), ('', {}),
]


def oracle_C01(rnd, budget):
    p = SqParser()
    for src, names in BUDGET_PROGRAMS:
        with Counter() as c:
            base = run(p, src, names=copy.deepcopy(names), max_ops_evaluated=10 ** 6)
            need = c.n
        if base[0] != 'ok':
            continue
        for N in sorted(set([1, 2, 3, max(1, need - 1), need, need + 1, need + 5])):
            case()
            nm = copy.deepcopy(names)
            with Counter() as c:
                r = run(p, src, names=nm, max_ops_evaluated=N)
                started = c.n
            if need < N:
                if r[0] != 'ok' or repr(r[1]) != repr(base[1]):
                    fail(what='run that needs fewer than N operations must succeed identically', src=src, N=N, need=need, got=r)
            else:
                if r[0] != 'limit':
                    fail(what='run that needs >= N operations must raise the ops-limit error', src=src, N=N, need=need, got=r, started=started)
                elif started != N:
                    fail(what='the limit error must be raised at the N-th operation', src=src, N=N, started=started)
            if started > N:
                fail(what='more than N operations started', src=src, N=N, started=started)
    # a host callback that swallows the limit error must not switch the budget off
    def swallow(f):
        try:
            return f(1)
        except ParserError:
            return -1
    for N in (4, 6, 8):
        case()
        with Counter() as c:
            r = run(p, 'h(v => v + v + v + v); 1 + 1 + 1 + 1 + 1 + 1', names={'h': swallow}, max_ops_evaluated=N)
            if r[0] == 'ok' and c.n > N:
                fail(what='budget not enforced after a host callback swallowed the limit error', N=N, started=c.n, got=r)
    # nothing of a program runs after eval has returned: host streams handed to the builtins, results consumed by the host
    def gen():
        for k in range(6):
            yield k
    for fname in Fn.FUNCTIONS:
        for form in ('%s(src, v => cb(v))', 'src | %s', '%s(src, (a, b) => cb(a))', '%s(src, 3)'):
            for mk in (lambda: iter([1, 2, 3, 4, 5, 6]), gen, lambda: [1, 2, 3, 4, 5, 6]):
                case()
                log = []

                def cb(v, log=log):
                    log.append(v)
                    return v
                with Counter() as c:
                    r = run(p, form % fname, names={'src': mk(), 'cb': cb}, max_ops_evaluated=10 ** 5)
                    during_ops, during_log = c.n, len(log)
                    if r[0] == 'ok' and hasattr(r[1], '__next__'):
                        try:
                            for _ in r[1]:
                                pass
                        except Exception:
                            pass
                    if c.n != during_ops or len(log) != during_log:
                        fail(what='operations of the program were started after eval had returned (a lazy result was consumed by the host)',
                             src=form % fname, ops_during=during_ops, ops_after=c.n, callbacks_during=during_log, callbacks_after=len(log))
    # ast_names are charged to the same budget
    case()
    body = p.parse('[1,2,3,4,5,6,7,8,9,10] | map(v => v + 1) | len')
    r = run(p, '1', ast_names={'k': body}, max_ops_evaluated=10)
    if r[0] == 'ok':
        fail(what='ast_names evaluated outside the budget', got=r)


def plain(v, seen=None):
    import types
    if v is None or isinstance(v, (bool, int, float, Decimal, str)):
        return True
    if isinstance(v, (list, tuple)):
        return all(plain(x) for x in v)
    if isinstance(v, dict):
        return all(plain(k) and plain(x) for k, x in v.items())
    if isinstance(v, slice):
        return plain(v.start) and plain(v.stop) and plain(v.step)
    if isinstance(v, types.FunctionType) and v.__module__ and v.__module__.startswith('smartquery'):
        return True
    if v in Fn.FUNCTIONS.values():
        return True
    return False


ARG_SHAPES = [None, True, 0, 3, Decimal('2.5'), 1.5, '', 'abc', '__class__', '{0.__class__}', [], [1, 2, 3], ['b', 'a'],
              [[1], [2]], {}, {'a': 1, 'b': [1]}, (1, 2), slice(0, 1)]


def oracle_C02(rnd, budget):
    import sys as _sys
    events = []
    active = [False]

    def hook(ev, args):
        if active[0] and (ev.split('.')[0] in ('open', 'os', 'subprocess', 'socket', 'import', 'exec', 'compile', 'shutil', 'ctypes')
                          or ev in ('open', 'import', 'exec', 'compile')):
            events.append(ev)
    _sys.addaudithook(hook)
    p = SqParser()
    names_pool = list(Fn.FUNCTIONS)
    for src in ('match("a1", "a")', 'match_all("a", "a")', 'match_groups("ab", "(a)")'):
        case()
        events.clear()
        active[0] = True
        run(p, src)
        active[0] = False
        if events:
            fail(what='I/O, import or dynamic code during evaluation', src=src, events=events[:5])
    for fname in names_pool:
        for _ in range(6):
            k = rnd.randint(0, 3)
            args = [copy.deepcopy(rnd.choice(ARG_SHAPES)) for _ in range(k)]
            nm = {'a%d' % i: a for i, a in enumerate(args)}
            if rnd.random() < 0.3:
                src = '%s(%s, v => v)' % (fname, ', '.join(nm)) if nm else '%s(v => v)' % fname
            else:
                src = '%s(%s)' % (fname, ', '.join(nm))
            case()
            events.clear()
            active[0] = True
            r = run(p, 'r = ' + src + '\nr', names=nm, max_ops_evaluated=2000)
            active[0] = False
            if events:
                fail(what='I/O, import or dynamic code during evaluation', src=src, args=args, events=events[:5])
            if r[0] == 'ok':
                if not plain(r[1]):
                    fail(what='non-plain value returned', src=src, args=args, value=r[1], type=type(r[1]).__name__)
                for k2, v2 in nm.items():
                    if not plain(v2):
                        fail(what='non-plain value stored in names', src=src, key=k2, type=type(v2).__name__)
    for src in ['x.__class__', 'x.mro()', 'x.as_tuple()', 'x.encode()', 'x.real', 'x.keys', 'x.format(x)', 'x.items']:
        for x in ('s', 1, Decimal(1), {'a': 1}):
            case()
            r = run(p, src, names={'x': x})
            if r[0] == 'ok' and not plain(r[1]):
                fail(what='attribute-like access leaked a non-plain value', src=src, x=x, value=r[1])


def oracle_C03(rnd, budget):
    p = SqParser()
    CAP = 10000
    for n in (0, 1, 9998, 9999, 10000, 10001):
        for kind in ('list', 'dict'):
            for op in ('c.push(1)', 'c.insert(0, 1)', 'c[k] = 1', 'c[k] += 1', 'push(c, 1, 2)' if False else 'c.push(1)'):
                if kind == 'dict' and ('push' in op or 'insert' in op):
                    continue
                c = list(range(n)) if kind == 'list' else {str(i): i for i in range(n)}
                k = 0 if kind == 'list' else 'new'
                if kind == 'list' and n == 0 and 'c[k]' in op:
                    continue
                if kind == 'dict' and '+=' in op:
                    k = '0'
                    if n == 0:
                        continue
                before = copy.copy(c)
                case()
                r = run(p, op, names={'c': c, 'k': k}, max_ops_evaluated=100)
                limit = max(CAP, n)
                if len(c) > limit:
                    fail(what='container grew beyond the cap', kind=kind, n=n, op=op, len_after=len(c))
                if n >= CAP:
                    if r[0] != 'parser_error':
                        fail(what='element-adding operation on a full container must raise ParserError', kind=kind, n=n, op=op, got=r[0])
                    if c != before:
                        fail(what='container changed although the operation failed at the cap', kind=kind, n=n, op=op)
    for n in (9999, 10000):
        case()
        c = {i: i for i in range(n)}
        r = run(p, 'c[1] = 1; c[2] = 2; c[3] = 3', names={'c': c})
        if len(c) > max(CAP, n):
            fail(what='dict with non-string host keys grew beyond the cap through index assignment', n=n, len_after=len(c))
        case()
        l = list(range(n - 1))
        r = run(p, 'l.push(1, 2, 3)', names={'l': l})
        if len(l) > CAP:
            fail(what='push of several values grew a list beyond the cap', n=n, len_after=len(l))
    # other growth routes (known findings excluded: list/tuple +, +=, c[k] +=, host slices, string-derived lists)
    big = list(range(9999))
    for src in ['l | map(v => v)', 'l | filter(v => True)', 'sorted(l)', 'reversed(l)', 'enumerate(l)', 'shuffle(l)', 'keys(d)',
                'values(d)', 'items(d)', 'l[:]', 'l * 2', 'l *= 2; l', 'list(l, l)', 'insert(l, 0, 1); insert(l, 0, 1); l',
                'push(l, 1); push(l, 2); l']:
        case()
        nm = {'l': list(big), 'd': {str(i): i for i in range(9999)}}
        r = run(p, src, names=nm, max_ops_evaluated=10 ** 6)
        for v in [r[1] if r[0] == 'ok' else None] + list(nm.values()):
            if isinstance(v, (list, dict)) and len(v) > CAP:
                fail(what='a list/dict longer than the cap was made', src=src, length=len(v))


def ndigits(x):
    if isinstance(x, bool):
        return 1
    if isinstance(x, int):
        return len(str(abs(x)))
    if isinstance(x, Decimal):
        return len(x.as_tuple().digits)
    if isinstance(x, float):
        return 17
    return 0


NUMS = [0, 1, 7, 12345, 10 ** 30 + 1, -3, True, 0.5, 3.0, Decimal('2.5'), Decimal('1E+50'), Decimal('123456789.123456789'),
        Decimal(10 ** 27 + 3)]


def oracle_C04(rnd, budget):
    p = SqParser()
    for op in ('*', '**'):
        for a in ['ab', [1, 2], (1, 2), 'x']:
            for b in [3, True, Decimal(2)]:
                for src, nm in (('a %s b' % op, {'a': a, 'b': b}), ('b %s a' % op, {'a': a, 'b': b})):
                    case()
                    r = run(p, src, names=copy.deepcopy(nm))
                    if r[0] == 'ok':
                        fail(what='%s on a non-number must not succeed' % op, src=src, a=a, b=b, got=r[1])
                if op == '*':
                    for src in ('a *= b; a', 'c[0] *= b; c[0]'):
                        case()
                        nm = {'a': copy.deepcopy(a), 'b': b, 'c': [copy.deepcopy(a)]}
                        r = run(p, src, names=nm)
                        if r[0] == 'ok':
                            fail(what='compound multiplication repeated a string/list', src=src, a=a, b=b, got=r[1])
    ops = ['a + b', 'a - b', 'a * b', 'a / b', 'a ** b', '-a', 'x = a; x += b; x', 'x = a; x -= b; x', 'x = a; x *= b; x',
           'x = a; x /= b; x', 'c = [a]; c[0] *= b; c[0]', 'c = [a]; c[0] += b; c[0]', 'round(a, 2)', 'min(a, b)', 'max(a, b)',
           'min([a, b])', 'float(a)', 'abs(a) if False else 0']
    for src in ops:
        for a in NUMS:
            for b in (NUMS if ' b' in src or 'b)' in src or 'b]' in src else [1]):
                if '**' in src and (isinstance(b, float) or isinstance(a, float) or abs(Fraction(str(b)) if not isinstance(b, bool) else 1) > 50):
                    continue
                case()
                r = run(p, src, names={'a': a, 'b': b}, max_ops_evaluated=200)
                if r[0] != 'ok' or isinstance(r[1], (float, bool)) or not isinstance(r[1], (int, Decimal)):
                    continue
                if src.startswith('float('):
                    continue
                lim = max(28, 1 + max(ndigits(a), ndigits(b) if ('b' in src.replace('abs', '')) else 0))
                if ndigits(r[1]) > lim:
                    fail(what='result has more digits than max(28, 1 + widest argument)', src=src, a=a, b=b, digits=ndigits(r[1]), limit=lim)
    case()
    r = run(p, 'a ** b', names={'a': 12345, 'b': 20000}, max_ops_evaluated=50)
    if r[0] == 'ok' and ndigits(r[1]) > 28:
        fail(what='** built a huge number natively', digits=ndigits(r[1]))


def _regex_worker(fname, pat, subj, flags, q):
    p = SqParser()
    src = '%s(s, p%s)' % (fname, ', f' if flags else '')
    t0 = time.process_time()
    r = run(p, src, names={'s': subj, 'p': pat, 'f': flags})
    q.put((time.process_time() - t0, r[0]))


def _cpu_seconds(pid):
    """processor time a live process has used so far (None when it cannot be read)"""
    try:
        with open('/proc/%d/stat' % pid) as f:
            fields = f.read().rsplit(')', 1)[1].split()
        return (int(fields[11]) + int(fields[12])) / os.sysconf('SC_CLK_TCK')
    except Exception:
        return None


def oracle_C05(rnd, budget):
    import multiprocessing as mp
    triples = [(r'(a+)+$', 'a' * 30 + '!', None), (r'(a|a)+$', 'a' * 26 + '!', None), (r'(a|aa)+$', 'a' * 40 + '!', 'i'),
               (r'(.*a){12}', 'a' * 30 + 'b', 's'), (r'^(\w+\s?)*$', 'word ' * 12 + '!', None), (r'(x+x+)+y', 'x' * 28, 'm'),
               (r'((a*)*)*b', 'a' * 28, None), (r'(?:a{1,30}){1,30}$', 'a' * 40 + '!', None), (r'(a+)+$', 'a' * 23 + '!', None),
               (r'a' * 50, 'a' * 100000, None), (r'(\d+)*x', '1' * 30, None), (r'(?r)(a+)+b', 'c' + 'a' * 28, None),
               (r'(?:hello){e<=3}', 'hellx' * 2000, None)]
    p = SqParser()
    # recorded defects of the unchanged tree (KNOWN_FINDINGS.jsonl, matched by these exact inputs): phases of the regex
    # engine that the timeout does not cover
    known = [('KF-C05-compile', 'a?' * 3000 + 'a' * 3000, 'a' * 3000, None),
             ('KF-C05-fullcase', '(?if)' + 's' * 6000 + 'x', 'S' * 10 ** 5, None)]
    for fname in ('match', 'match_groups', 'match_all'):
        for kid, pat, subj, flags in ([(None,) + t for t in triples] + (known if fname == 'match' or budget != 'quick' else [])):
            case()
            q = mp.Queue()
            w = mp.Process(target=_regex_worker, args=(fname, pat, subj, flags, q))
            # the bound is measured in processor seconds of the isolated worker (equal to wall-clock time on an idle machine, and not
            # inflated when the 16 cores are oversubscribed by other checks): the watchdog waits 2 s, then for as long as the worker has
            # used less than 2 s of processor time (at most 40 s)
            t0 = time.time()
            w.start()
            w.join(2.0)
            while w.is_alive() and time.time() - t0 < 40 and (_cpu_seconds(w.pid) or 0) < 2.0 + 1.0:   # + start-up of the worker
                w.join(0.2)
            extra = {'known_id': kid} if kid else {}
            if w.is_alive():
                w.kill()
                w.join()
                fail(what='regex builtin did not return within 2 s of processor time (killed by the watchdog)', fname=fname, pattern=pat[:60],
                     pattern_len=len(pat), subject_len=len(subj), flags=flags, **extra)
            else:
                try:
                    dt, oc = q.get(timeout=5)
                except Exception:
                    dt, oc = time.time() - t0, '?'
                if dt > 1.0:
                    fail(what='regex builtin took more than a second of processor time', fname=fname, pattern=pat[:60], pattern_len=len(pat), subject_len=len(subj),
                         seconds=round(dt, 2), outcome=oc, **extra)


def tree(op):
    """neutral form of a syntax tree"""
    if isinstance(op, list):
        return [tree(x) for x in op]
    if isinstance(op, tuple):
        return tuple(tree(x) for x in op)
    if isinstance(op, A.Op):
        return (type(op).__name__,) + tuple((k, tree(v)) for k, v in sorted(vars(op).items()))
    return repr(op)


def parse(p, src):
    try:
        return ('ok', tree(p.parse(src)))
    except ParserError as e:
        return ('parser_error', str(e))
    except Exception as e:
        return ('exc:' + type(e).__name__, str(e))


BINOPS = [('or', 1, 'l'), ('and', 2, 'l'), ('==', 3, 'n'), ('!=', 3, 'n'), ('>', 3, 'n'), ('<', 3, 'n'), ('>=', 3, 'n'),
          ('<=', 3, 'n'), ('in', 3, 'n'), ('+', 4, 'l'), ('-', 4, 'l'), ('*', 5, 'l'), ('/', 5, 'l'), ('**', 6, 'r')]


def oracle_C06(rnd, budget):
    """operator pairs: a o1 b o2 c must group by level/associativity ('not in' as look-ahead is a known finding)"""
    p = SqParser()
    for o1, l1, a1 in BINOPS:
        for o2, l2, a2 in BINOPS:
            case()
            src = 'a %s b %s c' % (o1, o2)
            got = parse(p, src)
            left = parse(p, '(a %s b) %s c' % (o1, o2))
            right = parse(p, 'a %s (b %s c)' % (o1, o2))
            if l1 > l2 or (l1 == l2 and a1 == 'l'):
                want = left
            elif l1 < l2 or (l1 == l2 and a1 == 'r'):
                want = right
            else:
                want = None
            if want is None:
                if got[0] == 'ok':
                    fail(what='non-associative comparisons must not chain', src=src)
            elif got != want:
                fail(what='binary operators grouped against the operator table', src=src, got=got[0])
    pairs = [('a + b.f()', 'a + (b.f())'), ('a * b | f', 'a * (b | f)'), ('-a.f()', '(-a).f()'), ('not a | f', '(not a) | f'),
             ('-a[0]', '-(a[0])'), ('not a[0]', 'not (a[0])'), ('a if c else b + 1', 'a if c else (b + 1)'),
             ('x => a + 1', 'x => (a + 1)'), ('a + b if c else d', '(a + b) if c else d'), ('a ** b ** c', 'a ** (b ** c)'),
             ('a.f().g()', '(a.f()).g()'), ('a | f | g', '(a | f) | g'), ('a[0][1]', '(a[0])[1]'), ('-a + b', '(-a) + b'),
             ('not a and b', '(not a) and b'), ('a if b else c if d else e', 'a if b else (c if d else e)'),
             ('x => y => x', 'x => (y => x)'), ('a and b or c and d', '(a and b) or (c and d)')]
    for s1, s2 in pairs:
        case()
        if parse(p, s1) != parse(p, s2):
            fail(what='grouping differs from the published binding rules', src=s1, expected_same_as=s2)
    for bad in ['a +', '(a', 'a b', 'a = = b', '[1, 2', '{1: }', 'a..b', 'x => ', 'if a else b', 'a if b', 'del a', '1 = 2', ', a', 'a[', 'f(,)']:
        case()
        if parse(p, bad)[0] == 'ok':
            fail(what='text outside the grammar accepted', src=bad)
    for good in ['a', 'f()', 'f(a,)', '[a,]', '{"a": 1,}', '{"a": 1, "b": 2,}', 'a[1:2]', 'a[1:]', 'a[:2]', 'a[:]', 'a[::2]', 'del a[0]', 'a[0] = 1',
                 'a[0] += 1', '(a, b) => a', 'a.f(b,)', 'a | f(b,)', 'a | f', 'x = 1; y = 2', 'x = 1\ny = 2', '', '# c', 'not a in b',
                 'a not in b', '(a)', '((a))', '-(-a)', 'True if None else False']:
        case()
        if parse(p, good)[0] != 'ok':
            fail(what='sentence of the grammar rejected', src=good, got=parse(p, good))


def oracle_C07(rnd, budget):
    """reference semantics on a corpus where Python itself is the reference (Decimal literals)"""
    p = SqParser()
    D = Decimal
    cases = [
        ('1 + 2 * 3', {}, D(7)), ('"a" + 1', {}, 'a1'), ('"a" + None', {}, 'aNone'), ('[1, 2, 3][1.9]', {}, D(2)), ('[1, 2, 3][-1]', {}, D(3)),
        ('{"a": 1}["a"]', {}, D(1)), ('{1: "x"}[1]', {}, 'x'), ('d = {}; d[1] = 2; d', {}, {'1': D(2)}), ('d = {1.5: 1}; d', {}, {'1.5': D(1)}),
        ('l = [1, 2, 3]; l[0:2]', {}, [D(1), D(2)]), ('l = [1, 2, 3]; l[:0]', {}, []), ('l = [1,2,3,4]; l[::2]', {}, [D(1), D(3)]),
        ('"hello"[1:0]', {}, ''), ('x = 5', {}, None), ('x = 5; x', {}, D(5)), ('f = (a, b) => a - b; f(5, 3, 9)', {}, D(2)),
        ('f = a => b; b = 3; f(1)', {}, D(3)), ('g = () => 1' if False else 'g = a => a; g(7)', {}, D(7)), ('1 if 0 else 2', {}, D(2)),
        ('0 or "x"', {}, 'x'), ('1 and 0', {}, D(0)), ('not 0', {}, True), ('-(3)', {}, D(-3)), ('2 ** 3', {}, D(8)), ('7 / 2', {}, D('3.5')),
        ('1 in [1, 2]', {}, True), ('3 not in [1, 2]', {}, True), ('"a" in "abc"', {}, True), ('len([1, 2])', {}, 2), ('str(1.50)', {}, '1.50'),
        ('int(2.7)', {}, D(2)), ('round(2.5)', {}, D(2)), ('round(2.567, 2)', {}, D('2.57')), ('floor(2.7)', {}, D(2)), ('ceil(2.1)', {}, D(3)),
        ('abs(-2.5)', {}, D('2.5')), ('sum([1, 2, 3])', {}, D(6)), ('min(3, 1, 2)', {}, D(1)), ('max([3, 1, 2])', {}, D(3)),
        ('l = [3, 1, 2]; sorted(l)', {}, [D(1), D(2), D(3)]), ('reversed([1, 2])', {}, [D(2), D(1)]), ('reversed("ab")', {}, 'ba'),
        ('enumerate(["a"])', {}, [(0, 'a')]), ('keys({"a": 1})', {}, ['a']), ('values({"a": 1})', {}, [D(1)]), ('items({"a": 1})', {}, [('a', D(1))]),
        ('get({"a": 1}, "b", 5)', {}, D(5)), ('get({"1": 2}, 1)', {}, D(2)), ('l = [1]; push(l, 2); l', {}, [D(1), D(2)]),
        ('l = [1, 2]; pop(l)', {}, D(2)), ('l = [1, 2]; pop(l, 0)', {}, D(1)), ('l = [1, 3]; insert(l, 1, 2); l', {}, [D(1), D(2), D(3)]),
        ('l = [1, 2]; remove(l, 1); l', {}, [D(2)]), ('index_of([5, 6], 6)', {}, 1), ('index_of([5], 7)', {}, None), ('join(["a", 1], "-")', {}, 'a-1'),
        ('split("a b")', {}, ['a', 'b']), ('replace("aaa", "a", "b", 2)', {}, 'bba'), ('"AbC" | lower', {}, 'abc'), ('"x".upper()', {}, 'X'),
        ('map([1, 2], v => v * 2)', {}, [D(2), D(4)]), ('map({"a": 1}, (k, v) => k)', {}, ['a']), ('filter([1, 2, 3], v => v > 1)', {}, [D(2), D(3)]),
        ('reduce([1, 2, 3], (a, b) => a + b)', {}, D(6)), ('l = [1]; m = l; push(m, 2); l', {}, [D(1)]),
        ('a = [[1]]; b = a; b[0][0] = 99; a', {}, [[D(1)]]), ('b = h; b[0].push(2); h', {'h': [[1]]}, [[1]]), ('a[0] = 9; a', {'a': [1]}, [D(9)]),
        ('del d["a"]; d', {'d': {'a': 1, 'b': 2}}, {'b': 2}), ('x += 1; x', {'x': 1}, D(2)),
        ('"1234 test" | match(r"\\d+")', {}, '1234'), ('match_groups("ab", "(a)(b)")', {}, ['ab', 'a', 'b']), ('match_all("a1b2", r"\\d")', {}, ['1', '2']),
        ('pretty(1234567)', {}, '1 234 567'), ('pretty([1, 2])', {}, '1, 2'), ('x = 1\n\n\ny = 2; y', {}, D(2)),
        # negative positions, aliasing of the in-place operators, None as a value, signed integer parts, surface forms
        ('del l[-1]; l', {'l': [1, 2, 3]}, [1, 2]), ('del l[-3]; l', {'l': [1, 2, 3]}, [2, 3]), ('del l[5]; l', {'l': [1, 2, 3]}, [1, 2, 3]),
        ('del l[1.9]; l', {'l': [1, 2, 3]}, [1, 3]), ('l[-1] = 9; l', {'l': [1, 2]}, [1, D(9)]), ('l[-2] += 1; l', {'l': [1, 2]}, [D(2), 2]),
        ('l.push(x); x += [2]; l', {'x': [1], 'l': []}, [[1, D(2)]]), ('x += "ab"; x', {'x': [1]}, [1, 'a', 'b']),
        ('y = x; x += [2]; y', {'x': [1]}, [1]), ('d["k"] += [2]; e', {'d': {'k': [1]}, 'e': None}, None),
        ('x', {'x': None}, None), ('x == None', {'x': None}, True), ('f = v => v; f(None)', {}, None), ('r = index_of([1], 5); r', {}, None),
        ('f = x => x; x = 5; f(None)', {}, None), ('get({"a": None}, "a", 5)', {}, None),
        ('floor(-2.5)', {}, D(-3)), ('ceil(-2.5)', {}, D(-2)), ('int(-2.7)', {}, D(-2)), ('round(-2.5)', {}, D(-2)), ('abs(-0.0)', {}, D(0)),
        ('max(1, 2,)', {}, D(2)), ('[1, 2,]', {}, [D(1), D(2)]), ('{"a": 1,}', {}, {'a': D(1)}), ('2 | max(5,)', {}, D(5)), ('2.max(5,)', {}, D(5)),
        ('-x.max(1)', {'x': 5}, D(1)), ('- x | max(1)', {'x': 5}, D(1)), ('not x | str', {'x': []}, 'True'), ('5.str()', {}, '5'),
        ('1 + 1   ', {}, D(2)), ('1 + 1\n', {}, D(2)), ('[1,\n 2, # c\n]', {}, [D(1), D(2)]), ('f(\n 1, # x\n)', {'f': lambda v: v}, D(1)),
        ('l.remove(1); l', {'l': [1, 1, 2]}, [1, 2]), ('[] or False', {}, False), ('5 and True', {}, True), ('0 or False', {}, False),
        ('sorted({"b": 1, "a": 2})', {}, {'a': D(2), 'b': D(1)}), ('"a,b" | split(",")', {}, ['a', 'b']),
    ]
    for src, names, want in cases:
        case()
        nm = copy.deepcopy(names)
        r = run(p, src, names=nm)
        if r[0] != 'ok' or r[1] != want or type(r[1]) is not type(want) and not (isinstance(want, Decimal) and isinstance(r[1], Decimal)):
            fail(what='value differs from the reference semantics', src=src, got=r, want=want)
    for src, cls in [('u', 'parser_error'), ('u()', 'parser_error'), ('[1][5]', 'parser_error'), ('{"a":1}["b"]', 'parser_error'), ('pop([])', 'parser_error'),
                     ('"a" * 2', 'parser_error'), ('[1] * 2', 'parser_error'), ('u(1 / 0)', 'exc:DivisionByZero'), ('x | f()', 'parser_error'),
                     ('1 +\n2', 'parser_error'), ('total =\n5', 'parser_error'), ('[1, 2][-3]', 'parser_error'), ('reduce([], (a, b) => a)', 'exc:TypeError')]:
        case()
        r = run(p, src)
        if r[0] != cls:
            fail(what='error class differs from the reference semantics', src=src, got=r[0], want=cls)
    # ops charged == node evaluations
    for src, names in BUDGET_PROGRAMS:
        case()
        st = {}
        orig = A.VMState.__init__ if hasattr(A.VMState, '__init__') else None
        with Counter() as c:
            r = run(p, src, names=copy.deepcopy(names), max_ops_evaluated=10 ** 6)


def oracle_C08(rnd, budget):
    p = SqParser()
    import decimal
    ctx = decimal.Context(prec=28, rounding=decimal.ROUND_HALF_EVEN)

    def lit():
        i = str(rnd.randint(0, 10 ** rnd.randint(0, 20)))
        if rnd.random() < 0.6:
            i += '.' + ''.join(rnd.choice('0123456789') for _ in range(rnd.randint(1, 20)))
        return i
    case()
    r = run(p, '0.1 + 0.2 == 0.3')
    if r != ('ok', True):
        fail(what='0.1 + 0.2 == 0.3 must be True', got=r)
    for _ in range(150):
        a, b = lit(), lit()
        for op in '+-*/':
            if op == '/' and Fraction(b) == 0:
                continue
            case()
            r = run(p, '%s %s %s' % (a, op, b))
            exact = {'+': Fraction(a) + Fraction(b), '-': Fraction(a) - Fraction(b), '*': Fraction(a) * Fraction(b),
                     '/': Fraction(a) / Fraction(b) if Fraction(b) else None}[op]
            want = ctx.divide(Decimal(exact.numerator), Decimal(exact.denominator))
            if r[0] != 'ok' or not isinstance(r[1], Decimal) or r[1] != want:
                fail(what='arithmetic on literals is not the exact result rounded half-even to 28 digits', src='%s %s %s' % (a, op, b), got=r, want=want)
        case()
        r = run(p, a)
        if r[0] != 'ok' or Fraction(r[1]) != Fraction(a) or len(r[1].as_tuple().digits) < len(a.replace('.', '').lstrip('0') or '0') - 0 and False:
            fail(what='literal does not denote its written value', src=a, got=r)
        case()
        r = run(p, '%s < %s' % (a, b))
        if r != ('ok', Fraction(a) < Fraction(b)):
            fail(what='comparison disagrees with exact rational order', src='%s < %s' % (a, b), got=r)
    for src in ['round(2.675, 2)', 'round(1.005, 2)', 'floor(0.1 + 0.2)', 'ceil(0.3 - 0.1 - 0.2)', 'abs(0.1 - 0.3)', 'sum([0.1, 0.2, 0.3])',
                'int(0.29 * 100)', 'min(0.1 + 0.2, 0.3)', 'max(0.3, 0.1 + 0.2)']:
        case()
        r = run(p, src)
        py = {'round(2.675, 2)': Decimal('2.68'), 'round(1.005, 2)': Decimal('1.00'), 'floor(0.1 + 0.2)': Decimal(0),
              'ceil(0.3 - 0.1 - 0.2)': Decimal(0), 'abs(0.1 - 0.3)': Decimal('0.2'), 'sum([0.1, 0.2, 0.3])': Decimal('0.6'),
              'int(0.29 * 100)': Decimal(29), 'min(0.1 + 0.2, 0.3)': Decimal('0.3'), 'max(0.3, 0.1 + 0.2)': Decimal('0.3')}[src]
        if r[0] != 'ok' or r[1] != py:
            fail(what='numeric builtin shows binary floating point error', src=src, got=r, want=py)
    # integer parts and roundings of signed numbers, against exact rational arithmetic
    import math
    for _ in range(120):
        # at most 22 significant digits: every operation below is exact in the 28-digit context
        a = str(rnd.randint(0, 10 ** rnd.randint(0, 12)))
        if rnd.random() < 0.7:
            a += '.' + ''.join(rnd.choice('0123456789') for _ in range(rnd.randint(1, 10)))
        if rnd.random() < 0.5:
            a = '-' + a
        fa = Fraction(a)
        k = rnd.randint(0, 6)
        wants = {'floor(%s)' % a: Decimal(math.floor(fa)), 'ceil(%s)' % a: Decimal(math.ceil(fa)),
                 'int(%s)' % a: Decimal(math.trunc(fa)), 'abs(%s)' % a: Decimal(a.lstrip('-')),
                 'round(%s, %d)' % (a, k): Decimal(a).quantize(Decimal(1).scaleb(-k), rounding=decimal.ROUND_HALF_EVEN,
                                                               context=decimal.Context(prec=60)),
                 'min(%s, 0)' % a: min(Decimal(a), Decimal(0)), 'max(%s, 0)' % a: max(Decimal(a), Decimal(0))}
        for src, want in wants.items():
            case()
            r = run(p, src)
            if r[0] != 'ok' or not isinstance(r[1], Decimal) or r[1] != want:
                fail(what='numeric builtin is not the exact decimal result', src=src, got=r, want=want)
    for a in ['9007199254740993', '0.99999999999999999999', '12345678901234567890.5', '-0.5', '-0.1', '2.5', '-2.5', '1e0'.replace('e0', '')]:
        for f, g in (('int', math.trunc), ('floor', math.floor), ('ceil', math.ceil)):
            case()
            r = run(p, '%s(%s)' % (f, a))
            if r[0] != 'ok' or r[1] != Decimal(g(Fraction(a))):
                fail(what='integer part is not exact', src='%s(%s)' % (f, a), got=r, want=g(Fraction(a)))
    # the decimal context is left alone
    case()
    before = (decimal.getcontext().prec, decimal.getcontext().rounding)
    for src in ['round(1234567890123456789012345.678, 5)', 'round(x, 50)', '1 / 3', 'int(10 ** 40)']:
        run(p, src, names={'x': float('inf')})
    after = (decimal.getcontext().prec, decimal.getcontext().rounding)
    r = run(p, '1 / 3')
    if before != after or r[0] != 'ok' or len(r[1].as_tuple().digits) != 28:
        fail(what='decimal context changed by an evaluation', before=before, after=after, third=r)


def oracle_C09(rnd, budget):
    p = SqParser()
    log = []

    def t(i, v=None, boom=False):
        log.append(int(i))
        if boom:
            raise ValueError('probe')
        return v
    shapes = [
        ('t(1, a) and t(2, b)', lambda a, b: [1, 2] if a else [1], lambda a, b: (a and b)),
        ('t(1, a) or t(2, b)', lambda a, b: [1] if a else [1, 2], lambda a, b: (a or b)),
        ('t(1, 10) if t(2, a) else t(3, 30)', lambda a, b: [2, 1] if a else [2, 3], lambda a, b: 10 if a else 30),
        ('t(1, 1) + t(2, 2)', lambda a, b: [1, 2], None), ('f(t(1), t(2), t(3))', lambda a, b: [1, 2, 3], None),
        ('[t(1), t(2), t(3)]', lambda a, b: [1, 2, 3], None), ('{t(1, "k"): t(2), t(3, "j"): t(4)}', lambda a, b: [1, 2, 3, 4], None),
        ('l[t(1, 0):t(2, 1)]', lambda a, b: [1, 2], None), ('l[::t(3, 1)]', lambda a, b: [3], None), ('t(1, l)[t(2, 0)] = t(3, 5)', lambda a, b: [1, 2, 3], None),
        ('t(1, l)[t(2, 0)] += t(3, 5)', lambda a, b: [1, 2, 3], None), ('del t(1, l)[t(2, 0)]', lambda a, b: [1, 2], None),
        ('t(1, l) | f(t(2))', lambda a, b: [1, 2], None), ('t(1, l).f(t(2), t(3))', lambda a, b: [1, 2, 3], None),
        ('x = t(1, 5)', lambda a, b: [1], None), ('y += t(1, 1)', lambda a, b: [1], None), ('t(1); t(2); t(3)', lambda a, b: [1, 2, 3], None),
        ('-t(1, 1)', lambda a, b: [1], None), ('not t(1, 1)', lambda a, b: [1], None), ('t(1, 1) < t(2, 2)', lambda a, b: [1, 2], None),
        ('t(1, 1) in t(2, l)', lambda a, b: [1, 2], None),
    ]
    for src, want_log, want_val in shapes:
        for a in (0, 1, '', 'x', [], [0]):
            for b in (0, 5):
                case()
                del log[:]
                r = run(p, src, names={'t': t, 'a': a, 'b': b, 'l': [1, 2, 3], 'f': lambda *x: None, 'y': 1})
                if r[0] != 'ok':
                    fail(what='probe program failed', src=src, got=r)
                    continue
                if log != want_log(a, b):
                    fail(what='operands evaluated in the wrong order / multiplicity / laziness', src=src, a=a, b=b, log=list(log), want=want_log(a, b))
                if want_val is not None and r[1] is not want_val(a, b) and r[1] != want_val(a, b):
                    fail(what='lazy operator did not yield the deciding operand', src=src, a=a, b=b, got=r[1])
    # a raising probe stops evaluation right there
    for src, want in [('f(t(1), t(2, None, True), t(3))', [1, 2]), ('{t(1, "k"): t(2, None, True), t(3): t(4)}', [1, 2]), ('[t(1, None, True), t(2)]', [1]),
                      ('undefined_fn(t(1), t(2))', [1, 2]), ('undefined_fn(t(1, None, True), t(2))', [1]), ('t(1, 5) | undefined_fn(t(2))', [1, 2]),
                      ('x = undefined_fn(t(1))', [1])]:
        case()
        del log[:]
        run(p, src, names={'t': t, 'f': lambda *x: None})
        if log != want:
            fail(what='evaluation continued after a raising operand', src=src, log=list(log), want=want)


def oracle_C10(rnd, budget):
    p = SqParser()
    builtins_before = dict(Fn.FUNCTIONS)

    def catcher(f, *a):
        try:
            return f(*a)
        except Exception:
            return 'caught'
    scen = [
        ('len = 5; len', {}, Decimal(5), {'len': Decimal(5)}),
        ('f = len => len; f(3)', {}, Decimal(3), None),
        ('x = 1; f = x => x + 1; f(10); x', {}, Decimal(1), None),
        ('f = a => a; f(1); a', {'a': 7}, 7, None),
        ('x = 1; f = v => g(v); g = v => x + v; f(2)', {}, Decimal(3), None),
        ('f = n => 1 if n < 1 else n + f(n - 1); f(4)', {}, Decimal(11), None),
        ('f = a => b(a) + a; b = a => a * 10; f(2)', {}, Decimal(22), None),
        ('x = 1; h(v => boom(v)); x', {'h': catcher}, Decimal(1), None),
        ('f = k => boom(k); h(f, 1); k', {'h': catcher, 'k': 'outer'}, 'outer', None),
        ('f = k => boom(k); g = z => k; h(f, 1); g(0)', {'h': catcher, 'k': 'outer'}, 'outer', None),
        ('map([1, 2], v => v)', {'v': 'host'}, [Decimal(1), Decimal(2)], {'v': 'host'}),
        ('h(v => boom(v), 1); h(w => v, 2)', {'h': catcher, 'v': 'host'}, 'host', None),
        ('f = x => x; f(None)', {'x': 5}, None, {'x': 5}),
        ('x = None; f = v => x; f(1)', {'x': 5}, None, None),
        ('f = len => len; f(None)', {}, None, None),
        ('f = t => g(t); f(1)', {'g': lambda v: v, 't': 9}, Decimal(1), {'t': 9}),
        ('y = 1; f = x => x + y; y = 2; f(0)', {}, Decimal(2), None),
        ('fact = n => 1 if n < 2 else n * fact(n - 1); fact(4)', {}, Decimal(24), None),
    ]
    for src, names, want, want_names in scen:
        case()
        nm = dict(names)
        r = run(p, src, names=nm)
        if r[0] != 'ok' or r[1] != want:
            fail(what='name resolution differs from innermost-first scoping', src=src, got=r, want=want)
        if want_names is not None:
            for k, v in want_names.items():
                if nm.get(k) != v:
                    fail(what='top-level assignment not written to the host mapping', src=src, key=k, got=nm.get(k))
        for k in list(nm):
            if k in ('a', 'v', 'k', 'n', 'z', 'w') and k not in names:
                fail(what='a lambda parameter leaked into the host mapping', src=src, key=k)
        if dict(Fn.FUNCTIONS) != builtins_before:
            fail(what='the builtin table was modified', src=src)
    case()
    run(p, 'len = 1')
    run(p, 'x = 1', names=None)
    if dict(Fn.FUNCTIONS) != builtins_before or run(p, 'len([1])') != ('ok', 1):
        fail(what='assignment without a names mapping reached the builtin table')
    # re-entrancy: an outer call's parameters survive an inner call of the same lambda
    case()
    r = run(p, 'f = n => 0 if n < 1 else f(n - 1) + n; f(4)')
    if r != ('ok', Decimal(10)):
        fail(what='re-entrant lambda call corrupted parameter bindings', got=r)
    case()
    r = run(p, 'g = (a, b) => a; f = (a, b) => g(b, a) + a; f(1, 10)')
    if r != ('ok', Decimal(11)):
        fail(what='nested lambda call corrupted the caller\'s parameter bindings', got=r)


CORPUS = ['1 + 1', 'x = [1,\n2,\n3]\nx', '(1 +', 'a b', 'x = 1;;; y = 2\ny', '{"a": (1,\n 2', 'f = v => v\nf(1)', '1 $ 2', '"unterminated',
          'for', 'undefined_name', '[1][9]', 'l | map(v => v / 0)', '[1,2,3] | map(v => v) | len', '# c\n\n1', '', ')', ']]]', '((((', 'x = 1\n\n)\n',
          'a[1', 'del x[0]', 'x = {"k": [1, 2]}\nx["k"][0]', '1 +\n2', 'x.y.z', "'it''s'", '%a b% + 1', 'x = 1 y = 2']


def outcome(fn):
    try:
        v = fn()
        if hasattr(v, '__next__'):
            v = list(v)
        return ('ok', repr(tree(v)) if isinstance(v, A.Op) else repr(v))
    except Exception as e:
        return (type(e).__name__, str(e))


def oracle_C11(rnd, budget):
    """histories of <= 3 calls on one parser vs fresh parsers (B2)"""
    shared = SqParser()
    calls = []
    for src in CORPUS:
        calls.append(('parse', src))
        calls.append(('eval', src))
        calls.append(('list_names', src))
        calls.append(('list_names_partial', src))

    def do(p, kind, src):
        if kind == 'parse':
            return outcome(lambda: p.parse(src))
        if kind == 'eval':
            return outcome(lambda: p.eval(src, names={'l': [1, 2], 'x': [5]}, max_ops_evaluated=30))
        if kind == 'list_names':
            return outcome(lambda: list(p.list_names(src)))
        def partial():
            g = p.list_names(src)
            try:
                return next(g)
            except StopIteration:
                return None
        return outcome(partial)
    ref = {}
    for c in calls:
        ref[c] = do(SqParser(), *c)
    n = 0
    limit = 2500 if budget == 'quick' else 12000
    while n < limit:
        hist = [rnd.choice(calls) for _ in range(rnd.randint(2, 3))]
        for c in hist:
            got = do(shared, *c)
            case()
            n += 1
            if got != ref[c]:
                fail(what='result depends on earlier calls on the same parser', history=hist, call=c, got=got, fresh=ref[c])
                return
    def later(with_failure):
        p2 = SqParser()
        nm = {'k': 5}
        p2.eval('inv = k => 10 / k\naddk = y => y + k\naddz = y => y + z\nbad = z => 1 / z', names=nm)
        if with_failure:
            outcome(lambda: p2.eval('inv(0)', names=nm))
            outcome(lambda: p2.eval('bad(0)', names=nm))
            outcome(lambda: p2.eval('[1, 2] | map(v => bad(0))', names=nm))
        return [outcome(lambda e=e: p2.eval(e, names=nm)) for e in ('addk(1)', 'addz(1)', 'inv(5)', 'k', '[1, 2] | map(addk)')]
    case()
    if later(False) != later(True):
        fail(what='a call that failed at run time changed the results of later calls sharing the names mapping',
             without=later(False), with_failure=later(True))
    # a names mapping that persists across calls, and independent mappings interleaved
    case()
    n1, n2 = {}, {}
    shared.eval('x = 1', names=n1)
    shared.eval('x = 2', names=n2)
    if outcome(lambda: shared.eval('x', names=n1)) != ('ok', "Decimal('1')") and outcome(lambda: shared.eval('x', names=n1))[1] not in ('1', "Decimal('1')"):
        fail(what='names mappings interfere', got=outcome(lambda: shared.eval('x', names=n1)))
    # pairs of calls, the first possibly without a names mapping / with differently written equal keys / defining lambdas
    firsts = ['leak = 41', 'len = 5', 'd = {1.0: "a"}; d', 'd = {1: "a"}; d', 'f = v => v + 1; f(1)', 'x = [1]; x.push(2)', '(((', '1 +', 'f(1,\n',
              'scale = v => v * k; scale(1)', 'k = 5']
    seconds = ['leak', 'len([1, 2])', 'd = {1: "b"}; d', '{1.00: "c"}', 'f(1)', 'x', '1 +\n2', 'a\nb', 'scale(1)', 'k', '[1,\n2]']
    fresh_of = {}
    combos = [(a, b, w, c) for a in firsts for b in seconds for w in (False, True) for c in (False, True)]
    if budget == 'quick':
        combos = rnd.sample(combos, 40)
    for a, b, with_names, cached in combos:
        case()
        q = SqParser(parse_cache={}) if cached else SqParser()
        outcome(lambda: q.eval(a, **({'names': {'k': 2}} if with_names else {})))
        got = outcome(lambda: q.eval(b, **({'names': {'k': 2}} if with_names else {})))
        if (b, with_names) not in fresh_of:
            fresh_of[(b, with_names)] = outcome(lambda: SqParser().eval(b, **({'names': {'k': 2}} if with_names else {})))
        if got != fresh_of[(b, with_names)]:
            fail(what='result of a call depends on an earlier call on the same parser (fresh names mapping each time)',
                 first=a, second=b, with_names=with_names, got=got, fresh=fresh_of[(b, with_names)])


def oracle_C12(rnd, budget):
    p = SqParser()
    host = {'h': [[1], {'k': [2]}], 't': ([1], 2), 'd': {'a': [1]}, 'e': []}
    progs = [
        ('a = h; a[0].push(9); h', lambda nm, r: r == [[1], {'k': [2]}]),
        ('a = h; h[0].push(9); a', lambda nm, r: r == [[1], {'k': [2]}]),
        ('a = t; a[0].push(9); t', lambda nm, r: r == ([1], 2)),
        ('c = [0]; c[0] = h; c[0][0].push(9); h', lambda nm, r: r == [[1], {'k': [2]}]),
        ('c = {}; c["x"] = d; c["x"]["a"].push(9); d', lambda nm, r: r == {'a': [1]}),
        ('a = [1]; b = a; b.push(2); a', lambda nm, r: r == [Decimal(1)]),
        ('a = [[1]]; b = a; b[0].push(2); a', lambda nm, r: r == [[Decimal(1)]]),
        ('a = [[1]]; b = [[5]]; b[0] = a[0]; b[0].push(2); a', lambda nm, r: r == [[Decimal(1)]]),
        ('x = [1]; y = [2]; x += y; y.push(3); x', lambda nm, r: r == [Decimal(1), Decimal(2)]),
        ('x = [[1]]; y = [[2]]; x += y; y[0].push(3); x', lambda nm, r: r == [[Decimal(1)], [Decimal(2)]]),
        ('c = [[1]]; y = [[2]]; c[0] += y; y[0].push(3); c', lambda nm, r: r == [[Decimal(1), [Decimal(2)]]]),
        ('x = h; y = h; x[0].push(7); y', lambda nm, r: r == [[1], {'k': [2]}]),
        ('x = h; h[1]["k"].push(5); x = h; x', lambda nm, r: r == [[1], {'k': [2, 5]}]),
        ('a = []; b = a; b.push(1); a', lambda nm, r: r == []),
        ('a = {}; b = a; b["k"] = 1; a', lambda nm, r: r == {}),
        ('c = e; c.push(1); e', lambda nm, r: r == []),
        ('c = [[]]; x = []; c[0] = x; x.push(1); c', lambda nm, r: r == [[]]),
        ('c = {}; x = [1]; c["k"] = x; x.push(2); c', lambda nm, r: r == {'k': [Decimal(1)]}),
        ('x = [1]; c = {"k": [0]}; c["k"] += x; x.push(2); c', lambda nm, r: r == {'k': [Decimal(0), Decimal(1)]}),
    ]
    for src, ok in progs:
        case()
        nm = copy.deepcopy(host)
        r = run(p, src, names=nm)
        if r[0] != 'ok' or not ok(nm, r[1]):
            fail(what='assignment did not store an independent copy', src=src, got=r)


def oracle_C13(rnd, budget):
    p = SqParser()
    mutators = {'push', 'pop', 'insert', 'remove', '__setitem__', '__setitem_with_op__', '__delitem__'}
    shapes = [[3, 1, 2], ['b', 'a'], [[2], [1]], {'b': 1, 'a': 2}, {'k': [1, 2]}, 'abc', (2, 1), [], {}, [Decimal(1), Decimal(2)]]
    extra = [None, 0, 1, 'a', True, 'b', ' ']
    import collections
    for fname in Fn.FUNCTIONS:
        if fname in mutators:
            continue
        for form in ('%s(a, "zz")', '%s(a, "zz", 0)', '%s(a)', '"zz" in a and %s(a)'):
            if fname == '__getitem__':
                continue      # an index read runs the host object's own __getitem__: not one of the listed builtins
            case()
            a = collections.defaultdict(list, {'k': [1]})
            run(p, form % fname, names={'a': a})
            if dict(a) != {'k': [1]}:
                fail(what='a non-mutating builtin modified a host mapping', src=form % fname, after=dict(a))
        for sh in shapes:
            for e in extra:
                for form in ('%s(a)', '%s(a, e)', '%s(a, v => v)', '%s(a, (x, y) => x)', '%s(a, e, True)', '%s(e, a)', 'a | %s | %s'):
                    src = form % ((fname,) * form.count('%s'))
                    case()
                    a = copy.deepcopy(sh)
                    before = copy.deepcopy(a)
                    nm = {'a': a, 'e': e}
                    run(p, src, names=nm, max_ops_evaluated=500)
                    if nm['a'] != before or type(nm['a']) is not type(before):
                        fail(what='a non-mutating builtin modified its argument', src=src, before=before, after=nm['a'])
    # lambdas handed to the non-mutators use operators on the elements: the elements stay as they were (also their types)
    for src, names in [('rows | reduce((acc, v) => acc + v)', {'rows': [[1], [2], [3]]}), ('rows | map(r => r + [0])', {'rows': [[1], [2]]}),
                       ('rows | filter(r => (r + [0]) | len)', {'rows': [[1], [2]]}), ('rows | sorted(r => (r + [0]) | len)', {'rows': [[1, 1], [2]]}),
                       ('prices[1]', {'prices': [1, 0.1, 2.5]}), ('prices | sum', {'prices': [1, 0.5, 2.5]}), ('prices | max', {'prices': [1, 0.1, 2.5]}),
                       ('d | keys', {'d': {1: 'a', 2.5: 'b'}}), ('d | get(1)', {'d': {1: 'a', '1': 'b'}}), ('s | join(",")', {'s': [1, 0.5, None]})]:
        case()
        nm = copy.deepcopy(names)
        run(p, src, names=nm, max_ops_evaluated=500)
        for k, before in names.items():
            same_types = repr(nm[k]) == repr(before)
            if nm[k] != before or not same_types:
                fail(what='a non-mutating operation modified a host container', src=src, before=before, after=nm[k])


def oracle_C14(rnd, budget):
    p = SqParser()
    D = Decimal
    keys = [0, 1, -1, 2, D('1.9'), D('0'), D('-1.5'), 5, -7, '0', 'k', True, None, D('1')]
    steps = 1500 if budget == 'quick' else 8000
    for trial in range(steps // 10):
        lst = [rnd.randint(0, 9 if trial % 2 else 2) for _ in range(rnd.randint(0, 5))]     # every other trial: many duplicates
        dct = {str(k): rnd.randint(0, 9) for k in rnd.sample(['0', '1', 'k', 'True', 'None', '1.9'], rnd.randint(0, 3))}
        ml, md = list(lst), dict(dct)
        nm = {'l': lst, 'd': dct}
        for _ in range(10):
            k = rnd.choice(keys)
            v = rnd.randint(10, 99)
            op = rnd.choice(['lget', 'lset', 'lsetop', 'ldel', 'push', 'pop', 'popi', 'insert', 'remove', 'index_of', 'len', 'in',
                             'dget', 'dset', 'dsetop', 'ddel', 'get', 'keys', 'values', 'items', 'dlen', 'din'])
            case()
            nm['k'], nm['v'] = k, v

            def li(k):
                if isinstance(k, Decimal):
                    k = int(k)
                if isinstance(k, bool) or not isinstance(k, int):
                    return None
                return k
            try:
                if op == 'lget':
                    i = li(k)
                    r = run(p, 'l[k]', names=nm)
                    if i is None:
                        continue
                    want = ('ok', ml[i]) if -len(ml) <= i < len(ml) else ('parser_error',)
                elif op == 'lset':
                    i = li(k)
                    r = run(p, 'l[k] = v; None', names=nm)
                    if i is None:
                        ml = list(nm['l'])
                        continue
                    if -len(ml) <= i < len(ml):
                        ml[i] = v
                        want = ('ok', None)
                    else:
                        want = ('fail',)
                elif op == 'lsetop':
                    i = li(k)
                    r = run(p, 'l[k] += v; None', names=nm)
                    if i is None:
                        ml = list(nm['l'])
                        continue
                    if -len(ml) <= i < len(ml):
                        ml[i] = ml[i] + v
                        want = ('ok', None)
                    else:
                        want = ('fail',)
                elif op == 'ldel':
                    i = li(k)
                    r = run(p, 'del l[k]', names=nm)
                    if i is None:
                        ml = list(nm['l'])
                        continue
                    if len(ml) > i:
                        if -len(ml) <= i:
                            del ml[i]
                            want = ('ok', None)
                        else:
                            want = ('fail',)
                    else:
                        want = ('ok', None)
                elif op == 'push':
                    r = run(p, 'l.push(v)', names=nm)
                    ml.append(v)
                    want = ('ok', None)
                elif op == 'pop':
                    r = run(p, 'l.pop()', names=nm)
                    want = ('ok', ml.pop()) if ml else ('parser_error',)
                elif op == 'popi':
                    i = li(k)
                    r = run(p, 'l.pop(k)', names=nm)
                    if i is None:
                        ml = list(nm['l'])
                        continue
                    want = ('ok', ml.pop(i)) if -len(ml) <= i < len(ml) else ('parser_error',)
                elif op == 'insert':
                    i = li(k)
                    r = run(p, 'l.insert(k, v)', names=nm)
                    if i is None:
                        ml = list(nm['l'])
                        continue
                    ml.insert(i, v)
                    want = ('ok', None)
                elif op == 'remove':
                    x = rnd.choice(ml) if ml and rnd.random() < 0.6 else rnd.randint(0, 9)
                    nm['v'] = x
                    r = run(p, 'l.remove(v)', names=nm)
                    if x in ml:
                        ml.remove(x)
                    want = ('ok', None)
                elif op == 'index_of':
                    x = rnd.randint(0, 9)
                    nm['v'] = x
                    r = run(p, 'l.index_of(v)', names=nm)
                    want = ('ok', ml.index(x) if x in ml else None)
                elif op == 'len':
                    r = run(p, 'len(l)', names=nm)
                    want = ('ok', len(ml))
                elif op == 'in':
                    x = rnd.randint(0, 9)
                    nm['v'] = x
                    r = run(p, 'v in l', names=nm)
                    want = ('ok', x in ml)
                elif op == 'dget':
                    r = run(p, 'd[k]', names=nm)
                    want = ('ok', md[str(k)]) if str(k) in md else ('parser_error',)
                elif op == 'dset':
                    r = run(p, 'd[k] = v; d[k]', names=nm)
                    md[str(k)] = v
                    want = ('ok', v)
                elif op == 'dsetop':
                    r = run(p, 'd[k] += v; None', names=nm)
                    if str(k) in md:
                        md[str(k)] += v
                        want = ('ok', None)
                    else:
                        want = ('fail',)
                elif op == 'ddel':
                    r = run(p, 'del d[k]', names=nm)
                    md.pop(str(k), None)
                    want = ('ok', None)
                elif op == 'get':
                    r = run(p, 'get(d, k, v)', names=nm)
                    want = ('ok', md.get(str(k), v))
                elif op == 'keys':
                    r = run(p, 'keys(d)', names=nm)
                    want = ('ok', list(md))
                elif op == 'values':
                    r = run(p, 'values(d)', names=nm)
                    want = ('ok', list(md.values()))
                elif op == 'items':
                    r = run(p, 'items(d)', names=nm)
                    want = ('ok', list(md.items()))
                elif op == 'dlen':
                    r = run(p, 'len(d)', names=nm)
                    want = ('ok', len(md))
                else:
                    r = run(p, 'str(k) in d', names=nm)
                    want = ('ok', str(k) in md)
            except Exception as e:
                fail(what='oracle error', op=op, err=repr(e))
                return
            bad = False
            if want[0] == 'ok':
                bad = r[0] != 'ok' or r[1] != want[1]
            elif want[0] == 'parser_error':
                bad = r[0] != 'parser_error'
            else:
                bad = r[0] == 'ok'
            if bad or nm['l'] != ml or nm['d'] != md:
                fail(what='container differs from its model', op=op, k=k, v=nm['v'], got=r, want=want, l=nm['l'], model_l=ml, d=nm['d'], model_d=md)
                return


def oracle_C15(rnd, budget):
    p = SqParser()
    base = ['f(a, b)', 'x.f(a, b)', 'x | f(a, b)', '[a, b, c]', '{"a": 1, "b": 2}', 'f(a)', '[a]', '{"a": 1}', 'x.f(a)', 'x | f(a)',
            'x = f(a, [b, c], {"k": v})', 'a + b * c', 'l[1:2]', 'y = (a, b) => a + b', 'f(g(a, b), c)', 'x.f(a).g(b, c)', 'a if b else c',
            'x = 1\ny = 2\nf(x, y)']

    def same(s1, s2, what):
        case()
        t1, t2 = parse(p, s1), parse(p, s2)
        if t1 != t2:
            fail(what=what, original=s1, rewritten=s2, got=(t1[0], t2[0]))
    for s in base:
        same(s, s.replace(' ', '  \t '), 'extra spaces/tabs changed the tree')
        same(s, s.replace(')', ',)') if '()' not in s and '=>' not in s else s, 'trailing comma in a call changed the tree')
        same(s, s.replace(']', ',]') if '[1:2]' not in s else s, 'trailing comma in a list changed the tree')
        same(s, s.replace('}', ',}'), 'trailing comma in a dict changed the tree')
        same(s, s.replace('(', '(\n').replace(',', ',\n').replace('[', '[\r\n').replace('{', '{\n') if '=>' not in s else s, 'line breaks inside brackets changed the tree')
        same(s, s.replace('\n', ';'), '; versus newline changed the tree')
        same(s, s.replace('\n', '\r\n'), 'CRLF changed the tree')
        same(s, s + '  # comment', 'a comment changed the tree')
        same(s, '\n\n' + s.replace('\n', '\n\n;\n') + '\n;;\n', 'blank statements changed the tree')
        if '\n' not in s and '=' not in s.replace('=>', ''):
            same(s, '(' + s + ')', 'redundant parentheses changed the tree')
            same(s, '((' + s + '))', 'redundant parentheses changed the tree')
    same('r.f(a)', 'f(r, a)', 'method call differs from plain call')
    same('r | f(a)', 'f(r, a)', 'pipe call differs from plain call')
    same('r | f', 'f(r)', 'bare pipe differs from plain call')
    same('r.f()', 'f(r)', 'method call differs from plain call')
    same('a + (b)', 'a + b', 'redundant parentheses changed the tree')
    same('f((a), (b))', 'f(a, b)', 'redundant parentheses changed the tree')


def oracle_C16(rnd, budget):
    p = SqParser()
    valid = ['x = [1, 2, {"a": (3 + 4) * 5}]\ny = x[2]["a"] if x else None\nf = (a, b) => a.g(b) | h',
             'del a[0]; a[1] += 2; b = "s\\"q" + \'t\'', '%my name% + 1 # c']
    texts = set()
    for v in valid:
        for i in range(len(v) + 1):
            texts.add(v[:i])
            texts.add(v[i:])
    for _ in range(400):
        texts.add(''.join(rnd.choice('ab1 ()[]{}+-*/=<>!,.|:;"\'\n\\%#=>€ß\x00\t') for _ in range(rnd.randint(0, 12))))
    for t in texts:
        for fn_ in (lambda: p.parse(t), lambda: list(p.list_names(t)), lambda: p.eval(t, names={'a': [1, 2, 3], 'x': 1}, max_ops_evaluated=50)):
            case()
            try:
                fn_()
            except Exception:
                pass
            except BaseException as e:
                fail(what='something that is not an ordinary Exception escaped', text=t, exc=type(e).__name__)
    must = [('1 +', 'syntax error at the very end'), ('f(', 'end'), ('x =', 'end'), ('(1', 'end'), ('a b', 'syntax'), ('1 $ 2', 'lexical'), ('for', 'reserved'),
            ('while', 'reserved'), ('elif', 'reserved'), ('u', 'undefined variable'), ('u()', 'undefined function'), ('u += 1', 'compound assignment of undefined'),
            ('x[5]', 'missing index'), ('d["zz"]', 'missing key'), ('pop(e)', 'empty pop'), ('x[-9]', 'missing index'), ('"s"[3]', 'missing index'),
            ('"unterminated', 'lexical'), ('1 + + ', 'end'), ('1 2', 'syntax error at a number'), ('f(1 2)', 'syntax error at a number'),
            ('"a" "b"', 'syntax error at a string'), ('x = 1\n2 3', 'syntax error at a number'), ('a[-4]', 'missing index'), ('e[-1]', 'missing index'),
            ('""[-1]', 'missing index'), ('[1, 2, 3] | filter(v => v > lim)', 'undefined variable in a callback'),
            ('map([1], v => u(v))', 'undefined function in a callback'), ('sorted([2, 1], v => nope)', 'undefined variable in a key function'),
            ('reduce([1, 2], (p, q) => p + zz)', 'undefined variable in a reducer'), ('1 +\n2', 'line break inside an expression'),
            ('total =\n5', 'line break after ='), ('f(1,\n', 'end')]
    for src, what in must:
        case()
        r = run(p, src, names={'x': [1], 'd': {}, 'e': [], 'a': [1, 2, 3]})
        if r[0] != 'parser_error':
            fail(what='language-level failure not reported as ParserError: ' + what, src=src, got=r[0], msg=r[1])
    case()
    r = run(p, '[1,2,3] | map(v => v)', max_ops_evaluated=3)
    if r[0] != 'limit':
        fail(what='op budget not reported with the ops-limit error', got=r)
    case()
    r = run(p, 'l.push(1)', names={'l': list(range(10000))})
    if r[0] != 'parser_error':
        fail(what='size cap not reported as ParserError', got=r)


class LRU(dict):
    def __init__(self, n):
        self.n = n

    def __setitem__(self, k, v):
        dict.__setitem__(self, k, v)
        while len(self) > self.n:
            del self[next(iter(self))]


def host_len(x):
    return 'host-len'


class Evicting(dict):
    def __setitem__(self, k, v):
        pass


def oracle_C17(rnd, budget):
    srcs = ['[]', '{}', '[1, 2]', '{"a": [1]}', 'x = []; x', 'len(xs)', ' len(xs)', 'len(xs) ', 'len(xs)\n', '\nlen(xs)', '1 +', 'f = v => [v]; f(1)',
            '"s"', 'xs', 'a b', 'l = [1]\nl.push(2)\nl', '[[1], [2]][0]', 'd = {"k": []}; d["k"]']
    caches = [lambda: None, dict, lambda: LRU(2), Evicting, lambda: dict((s, SqParser().parse(s)) for s in ('[]', 'len(xs)'))]
    for mk in caches:
        cached = SqParser(parse_cache=mk())
        plain_p = SqParser()
        for _ in range(250 if budget == 'quick' else 1500):
            s = rnd.choice(srcs)
            names_kind = rnd.choice([0, 1, 2])
            def names():
                return [{'xs': [1, 2, 3]}, {'xs': [1], 'len': host_len}, {'xs': 'ab'}][names_kind]
            n1, n2 = names(), names()
            kind = rnd.choice(['eval', 'parse'])
            case()
            if kind == 'eval':
                r1 = outcome(lambda: cached.eval(s, names=n1))
                r2 = outcome(lambda: plain_p.eval(s, names=n2))
                # the host mutates the result of the cached evaluation
                try:
                    v = cached.eval(s, names=names())
                    if isinstance(v, list):
                        v.append('host')
                    if isinstance(v, dict):
                        v['host'] = 1
                except Exception:
                    pass
            else:
                r1 = outcome(lambda: cached.parse(s))
                r2 = outcome(lambda: plain_p.parse(s))
            def norm(d):
                return repr({k: ('<callable>' if callable(v) else v) for k, v in d.items()})
            if r1 != r2 or norm(n1) != norm(n2):
                fail(what='a parser with a cache behaves differently from one without', src=s, kind=kind, cached=r1, uncached=r2)
                return


def names_in_tree(op, out):
    if isinstance(op, (list, tuple)):
        for x in op:
            names_in_tree(x, out)
    elif isinstance(op, A.Op):
        for k, v in vars(op).items():
            if k == 'name':
                out.append(v)
            names_in_tree(v, out)


class Recording(dict):
    def __init__(self, *a):
        dict.__init__(self, *a)
        self.asked = []

    def __getitem__(self, k):
        self.asked.append(k)
        return dict.__getitem__(self, k)

    def __contains__(self, k):
        self.asked.append(k)
        return dict.__contains__(self, k)


def oracle_C18(rnd, budget):
    p = SqParser()
    IMPLICIT = {'list', 'dict', '__getitem__', '__setitem__', '__delitem__', '__setitem_with_op__'}
    progs = ['a + b', 'f(a, b)', 'a.g(b) | h', 'x = y', 'x += y', '(p, q) => p + z', 'p => p', '%my name% + %other.x%', 'a[i] = b', 'del a[i]',
             'a[i:j]', '{k: v}', '[a, b]', 'a if b else c', 'not a and b or c in d', '"str" + s # not_a_name', "'a b c' + t", 'for_x + iff',
             'x = 1\ny = x\nf(y)', 'a.b(c)', '"id-" + n', 'a | f', 'True and None or False', 'l[0] += k']
    for s in progs:
        case()
        try:
            ln = list(p.list_names(s))
        except Exception as e:
            fail(what='list_names failed on a parsable program', src=s, err=repr(e))
            continue
        out = []
        names_in_tree(p.parse(s), out)
        missing = [n for n in out if n not in ln and n not in IMPLICIT]
        if missing:
            fail(what='a name of the program is not reported by list_names', src=s, missing=missing, listed=ln)
        if any(k in ln for k in ('and', 'or', 'not', 'in', 'if', 'else', 'True', 'None', 'False', 'del')):
            fail(what='a keyword reported as a name', src=s, listed=ln)
        rec = Recording({n: 1 for n in ln})
        rec.update({'f': lambda *a: 1, 'g': lambda *a: 1, 'h': lambda *a: 1, 'b': lambda *a: 1, 'a': [1, 2, 3], 'l': [1], 'i': 0, 'j': 1, 'k': 1})
        rec.asked = []
        run(p, s, names=rec)
        stray = [k for k in rec.asked if k not in ln and k not in IMPLICIT]
        if stray:
            fail(what='evaluation asked the host for a name list_names does not report', src=s, stray=stray, listed=ln)
    pc = SqParser(parse_cache={})
    for s in progs:
        case()
        x1, x2 = list(pc.list_names(s)), list(pc.list_names(s))
        pc.parse(s)
        x3 = list(pc.list_names(s))
        if not (x1 == x2 == x3 == list(SqParser().list_names(s))):
            fail(what='list_names on a parser with a parse cache depends on earlier calls', src=s, first=x1, second=x2, third=x3)
    for s in progs:
        case()
        a = list(p.list_names(s))
        b = list(p.list_names(s))
        try:
            p.parse('(((')
        except Exception:
            pass
        c = list(p.list_names(s))
        if not (a == b == c == list(SqParser().list_names(s))):
            fail(what='list_names depends on earlier calls', src=s, first=a, second=b, third=c)
    for s in ['%unit  price% + %unit price%', '%a  b%', 'x = %a b%\ny = %a  b%']:
        for q in (SqParser(), SqParser(parse_cache={})):
            case()
            for t in ('%unit price%', '%a b% + 1'):      # near-duplicates parsed before
                try:
                    q.parse(t)
                except Exception:
                    pass
            ln = list(q.list_names(s))
            rec = Recording({n: 1 for n in ln})
            rec.asked = []
            run(q, s, names=rec)
            stray = [k for k in rec.asked if k not in ln and k not in IMPLICIT]
            if stray:
                fail(what='evaluation asked the host for a name list_names does not report', src=s, stray=stray, listed=ln)
    for bad in ['x = %base rate%\ny = = 2', 'a = %p q%\nb = (']:
        case()
        q = SqParser()
        try:
            q.eval(bad, names={})
        except Exception:
            pass
        s = 'z + 1'
        ln = list(q.list_names(s))
        rec = Recording({n: 1 for n in ln})
        rec.asked = []
        run(q, s, names=rec)
        stray = [k for k in rec.asked if k not in ln and k not in IMPLICIT]
        if stray:
            fail(what='after a failed text, evaluation asked the host for a name list_names does not report', earlier=bad, src=s, stray=stray)
    case()
    if list(p.list_names('b a c a')) != ['b', 'a', 'c', 'a']:
        fail(what='list_names does not yield names in source order', got=list(p.list_names('b a c a')))


def oracle_C19(rnd, budget):
    p = SqParser()
    D = Decimal
    bounds = [(1, 10), (0, 0), (-5, 5), (D(1), D(10)), (D('3'), 3), (-3, -3), (10 ** 31 + 1, 10 ** 31 + 3), (D(10 ** 31 + 1), D(10 ** 31 + 3)),
              (D('2.0'), D('4.0')), (True, 3), (0, 2 ** 70)]
    for a, b in bounds:
        for _ in range(40):
            case()
            r = run(p, 'rand(a, b)', names={'a': a, 'b': b})
            if r[0] != 'ok' or not (a <= r[1] <= b) or r[1] != int(r[1]):
                fail(what='rand(a, b) outside [a, b] or not an integer or failed', a=a, b=b, got=r)
                break
    import random as _r
    real = _r.random
    for extreme in (0.0, 1 - 2 ** -53, 0.5, 2 ** -60):
        case()
        _r.random = lambda: extreme
        try:
            r = run(p, 'rand()')
        finally:
            _r.random = real
        if r[0] != 'ok' or not (0 <= r[1] < 1):
            fail(what='rand() outside [0, 1)', draw=extreme, got=r)
    for _ in range(200):
        case()
        r = run(p, 'rand()')
        if r[0] != 'ok' or not (0 <= r[1] < 1):
            fail(what='rand() outside [0, 1)', got=r)
    for l in ([1], [1, 2, 3], ['a', [1]], list(range(50)), [0.1, 0.2, 0.7], [1.5], [D('1.0'), 2, 'x', None, True, 2.5], [[0.5], {'k': 1}]):
        for _ in range(30):
            case()
            nm = {'l': list(l)}
            r = run(p, 'rand(l)', names=nm)
            if r[0] != 'ok' or not any(r[1] is e or (type(r[1]) is type(e) and r[1] == e) for e in nm['l']):
                fail(what='rand(list) did not return an element of the list (same value, same type)', l=l, got=r)
                break
            r = run(p, 'shuffle(l)', names=nm)
            if r[0] != 'ok' or sorted(map(repr, r[1])) != sorted(map(repr, l)) or nm['l'] != l or r[1] is nm['l']:
                fail(what='shuffle is not a fresh permutation / changed its argument', l=l, got=r, after=nm['l'])


def oracle_C20(rnd, budget):
    p = SqParser()
    import re
    progs = ['x = 1\ny = 2\nz = x + y', 'x = [1,\n 2,\n 3]\ny = {"a":\n 1}\nz = f(x,\n y)', 'a = 1; b = 2; c = 3\nd = 4;e = 5', 'x = 1\r\ny = (2,\r\n 3)\r\nz = 4',
             'x = (1 +\n 2)\n\n\ny = 3 # c\n# c2\nz = 4', 'f = v =>\n v\n']
    for prog in progs:
        toks = [m for m in re.finditer(r'[A-Za-z_]\w*|\d+|==|=>|[^\s\w]', prog)]
        for m in toks:
            pos = m.end()
            bad = prog[:pos] + ' @@STRAY@@ '.replace('@@STRAY@@', 'zzz zzz') + prog[pos:]
            case()
            r = run(p, bad)
            if r[0] != 'parser_error':
                continue
            mm = re.search(r'Syntax error: (.*) at line (\d+)', r[1], re.S)
            if not mm:
                continue
            text, line = mm.group(1), int(mm.group(2))
            # where does the offending token stand?  find candidates of that text in the broken program
            lines = [bad.count('\n', 0, k.start()) + 1 for k in re.finditer(re.escape(text), bad)] if text.strip() else None
            if lines is not None and line not in lines:
                fail(what='reported line is not a line on which the offending token stands', program=bad, token=text, reported=line, candidates=lines)
    for pre in ['a\nb\nc\nd', 'x = [1,\n2]\ny']:
        case()
        list(p.list_names(pre))
        r = run(p, 'zzz zzz')
        if r[0] != 'parser_error' or 'line 1' not in r[1]:
            fail(what='line number of a syntax error depends on an earlier list_names call', earlier=pre, got=r)
    for trunc in ['1 +', 'f(1,', 'x = ', '[1, 2', '{"a": ', 'a if b else', 'x = 1\ny = (2 +', 'v =>']:
        for tail in ('', '\n', '\r\n', '  ', ' \n \n'):
            case()
            r = run(p, trunc + tail)
            if r[0] != 'parser_error' or 'end' not in r[1].lower():
                fail(what='an error at the very end is not reported as unexpected end of input', src=trunc + tail, got=r)
    # an offending token at the start of a line, in the middle, after blank lines, after bracketed line breaks
    for src, line in [('a = 1\nzzz zzz\nb = 2', 2), ('a = 1\n\nzzz zzz', 3), ('a = 1\n  zzz zzz', 2), ('zzz zzz', 1), ('a = [1,\n2]\nzzz zzz', 3),
                      ('a = 1\r\nzzz zzz', 2), ('a = 1; b = 2\nzzz zzz', 2), ('a = 1 # c\nzzz zzz', 2), ('a = 1\nb = 2\nc = 3\n1 2', 4)]:
        for q in (p, SqParser(parse_cache={})):
            case()
            r = run(q, src)
            if r[0] != 'parser_error' or not re.search(r'at line %d\b' % line, r[1]):
                fail(what='reported line is not the line of the offending token', src=src, want_line=line, got=r)


def main():
    prop = sys.argv[1]
    seed = int(sys.argv[2]) if len(sys.argv) > 2 else 0
    budget = sys.argv[3] if len(sys.argv) > 3 else 'quick'
    rnd = random.Random(seed)
    random.seed(seed)
    t0 = time.time()
    fn_ = globals().get('oracle_' + prop)
    err = None
    if fn_ is not None:
        try:
            fn_(rnd, budget)
        except Exception as e:       # oracle bug: reported, never a verdict
            import traceback
            err = traceback.format_exc()[-1500:]
    print(json.dumps({'property': prop, 'cases': CASES[0], 'failures': FAIL[:20], 'n_failures': len(FAIL), 'oracle_error': err,
                      'seconds': round(time.time() - t0, 2), 'violated': bool(FAIL)}))



def oracle_STUBS(rnd, budget):
    """cross-check of the assumed contracts on dependencies (sqv/stubs.py, sqv/pymodel.py) against CPython:
    each block states the axiom the model uses and evaluates it on concrete draws"""
    import copy as _copy
    import decimal
    import math
    import regex
    D = Decimal

    def dig(x):
        return len(x.as_tuple().digits)

    def rdec():
        return D(rnd.randint(-10 ** rnd.randint(0, 40), 10 ** rnd.randint(0, 40))).scaleb(rnd.randint(-30, 30))
    for _ in range(400):
        a, b = rdec(), rdec()
        for op in ('+', '-', '*', '/'):
            case()
            try:
                r = {'+': a + b, '-': a - b, '*': a * b, '/': a / b if b else D(0)}[op]
            except decimal.DecimalException:
                continue
            if dig(r) > 28:
                fail(what='A-DEC-CTX: context arithmetic result has more than 28 digits', a=a, b=b, op=op, digits=dig(r))
        i = rnd.randint(-10 ** 60, 10 ** 60)
        case()
        if dig(D(i)) != len(str(abs(i))) or D(str(i)) != D(i) or D(str(a)) != a:
            fail(what='Decimal(int) exact / A-STR-ROUNDTRIP', i=i, a=a)
        case()
        if a == a.to_integral_value() or True:
            t = int(a)
            want = max(1, a.adjusted() + 1) if abs(a) >= 1 else 1
            if len(str(abs(t))) != want:
                fail(what='int(Decimal) has adj+1 digits', a=a, got=len(str(abs(t))), want=want)
        case()
        if dig(-a) > max(28, 0) and dig(-a) > dig(a):
            fail(what='unary minus digits', a=a)
        f = rnd.uniform(-1e6, 1e6)
        case()
        if dig(D(repr(f))) > 17 or dig(D(f)) > 767:
            fail(what='float repr has <= 17 digits; Decimal(float) <= 767', f=f)
    for _ in range(300):
        l = [rnd.randint(0, 5) for _ in range(rnd.randint(0, 6))]
        i = rnd.randint(-9, 9)
        v = 99
        case()
        m = list(l)
        m.insert(i, v)
        n = len(l)
        pos = (0 if i + n < 0 else i + n) if i < 0 else (n if i > n else i)
        if m != l[:pos] + [v] + l[pos:]:
            fail(what='list.insert clamps the position', l=l, i=i)
        case()
        m = list(l)
        try:
            x = m.pop(i)
            j = i + n if i < 0 else i
            if not (0 <= j < n) or x != l[j] or m != l[:j] + l[j + 1:]:
                fail(what='list.pop removes the normalised position', l=l, i=i)
        except IndexError:
            j = i + n if i < 0 else i
            if 0 <= j < n:
                fail(what='list.pop raises IndexError only out of range', l=l, i=i)
        case()
        d = {}
        ks = [rnd.choice('abcdef') for _ in range(6)]
        for k in ks:
            d[k] = 1
        first = []
        for k in ks:
            if k not in first:
                first.append(k)
        if list(d) != first or list(d.keys()) != [k for k, _ in d.items()]:
            fail(what='dict iterates in insertion order', ks=ks)
        case()
        nested = [[1, [2]], {'k': [3]}]
        c = _copy.deepcopy(nested)
        sh = _copy.copy(nested)
        if c != nested or c[0] is nested[0] or c[0][1] is nested[0][1] or c[1]['k'] is nested[1]['k'] or sh[0] is not nested[0] or sh is nested:
            fail(what='deepcopy shares nothing, copy shares elements')
        case()
        s = ''.join(rnd.choice('ab ,') for _ in range(rnd.randint(0, 12)))
        if len(s.split(',')) > len(s) + 1 or len(s.split()) > len(s) + 1 or len(regex.findall('a|', s)) > len(s) + 1:
            fail(what='split / findall yield at most len+1 items', s=s)
        case()
        if len(sorted(l)) != len(l) or sorted(sorted(l)) != sorted(l) or len(list(reversed(l))) != len(l) or len(list(enumerate(l))) != len(l):
            fail(what='sorted/reversed/enumerate keep the length', l=l)
    import random as _r
    for _ in range(300):
        case()
        a = rnd.randint(-50, 50)
        b = a + rnd.randint(0, 50)
        x = _r.randint(a, b)
        y = _r.random()
        if not (a <= x <= b) or not (0 <= y < 1):
            fail(what='random.randint in [a,b], random.random in [0,1)', a=a, b=b, x=x, y=y)
    case()
    try:
        _r.randint(D(1), D(3))
        fail(what='randint accepts only ints on this interpreter (model: TypeError)')
    except TypeError:
        pass
    case()
    t0 = time.time()
    try:
        regex.search(r'(a+)+$', 'a' * 40 + '!', timeout=0.05)
        took = time.time() - t0
        if took > 1.0:
            fail(what='regex timeout not honoured', seconds=took)
    except TimeoutError:
        if time.time() - t0 > 1.0:
            fail(what='regex timeout not honoured', seconds=time.time() - t0)


if __name__ == '__main__':
    main()
