"""Run by /venv/bin/python with PYTHONPATH = a scratch copy of the tree: construct a real SqParser and
dump the tables it will execute (LR action/goto/productions, lexer rule order and regexes)."""
import json
import sys

from smartquery import SqParser

p = SqParser()
y = p.yacc
prods = []
for pr in y.productions:
    prods.append({'number': pr.number, 'name': pr.name, 'prod': list(pr.prod), 'len': pr.len,
                  'func': pr.func, 'str': pr.str})
action = {str(s): {t: a for t, a in row.items()} for s, row in y.action.items()}
goto = {str(s): dict(row) for s, row in y.goto.items()}
lx = p.lex
lexre = []
for state, lst in lx.lexstatere.items():
    for item in lst:
        regex = item[0].pattern if hasattr(item[0], 'pattern') else str(item[0])
        names = []
        for f in item[1]:
            if f is None:
                names.append(None)
            else:
                names.append([getattr(f[0], '__name__', None) if f[0] else None, f[1]])
        lexre.append({'state': state, 'regex': regex, 'names': names})
out = {'productions': prods, 'action': action, 'goto': goto,
       'defaulted_states': {str(k): v for k, v in getattr(y, 'defaulted_states', {}).items()},
       'lexre': lexre, 'lexignore': lx.lexignore, 'lexreflags': int(lx.lexreflags),
       'lexliterals': lx.lexliterals, 'has_errorf': lx.lexerrorf is not None,
       'errorfunc': getattr(y.errorfunc, '__name__', None)}
json.dump(out, sys.stdout)
