"""Loops and comprehensions: inductive invariants (entry / preserved / use at exit).

Generic two-state invariants come from the families; loop-specific ones from the sidecar
contracts, keyed by function label and loop ordinal (source order)."""
import ast
import z3

from . import logic as L
from .logic import Val, I
from .symex import Env, St, PathEnd, Unsupported, BreakEx, ContinueEx, Closure

PURE_CALLS = {'isinstance', 'len'}


class IterDesc:
    """how to enumerate an iterable under the *current* heap"""

    def __init__(self, kind, **kw):
        self.kind = kind
        self.__dict__.update(kw)


def assigned_names(nodes):
    out = set()
    for n in nodes:
        for x in ast.walk(n):
            if isinstance(x, ast.Name) and isinstance(x.ctx, ast.Store):
                out.add(x.id)
    return out


def has_calls(nodes):
    for n in nodes:
        for x in ast.walk(n):
            if isinstance(x, ast.Call):
                if isinstance(x.func, ast.Attribute) and x.func.attr == 'append':
                    continue          # building a local list
                if isinstance(x.func, ast.Name) and (x.func.id in PURE_CALLS or x.func.id[:1].isupper()):
                    continue          # constructors of tree nodes
                return True
    return False


def has_effects(nodes):
    for n in nodes:
        for x in ast.walk(n):
            if isinstance(x, ast.Call):
                if isinstance(x.func, ast.Name) and x.func.id in PURE_CALLS:
                    continue
                return True
            if isinstance(x, (ast.Attribute, ast.Subscript)) and isinstance(x.ctx, (ast.Store, ast.Del)):
                return True
            if isinstance(x, (ast.Yield, ast.AugAssign)):
                return True
    return False


class Loops:
    def __init__(self, engine):
        self.engine = engine
        self.cur_mod_names = {}
        self.invariants = {}     # (label, ordinal) -> fn(ex, env, i) -> [(name, props, formula)]
        self.axioms = {}         # (label, ordinal) -> fn(ex, env, i) -> [formula]  (ghost definitions, assumed only)
        self.post_bind_axioms = {}   # same, evaluated after the loop target is bound (type invariants of host data)
        self.var_invs = {}
        self.shape_checks = {}       # (label, ordinal) -> fn(loop statement) -> bool: the loop the sidecar invariant was written for

    _idiom_key = None

    def sidecar(self, ex, table, key):
        """the sidecar entry for a loop; a function under contract with ONE annotated loop keeps its annotation when that
        loop has been moved into a helper it calls (extract-method): the loop is found in the inlined helper instead"""
        if key in table:
            return table[key]
        if ex.depth > 0:
            own = [k for k in table if k[0] == ex.task.label]
            if len(own) == 1:
                return table[own[0]]
        return None

    def loop_key(self, ex, node):
        if self._idiom_key is not None and isinstance(node, (ast.ListComp, ast.DictComp, ast.While)):
            return self._idiom_key
        fi = ex.task.finfo
        ordinal = None
        if fi is not None:
            k = 0
            for x in ast.walk(fi.node):
                if isinstance(x, (ast.For, ast.While, ast.ListComp, ast.DictComp)):
                    if x is node:
                        ordinal = k
                    k += 1
        return (ex.task.label if ordinal is not None else ex.cur_func, ordinal if ordinal is not None else node.lineno)

    # -- iteration descriptors -------------------------------------------------------------
    def describe(self, ex, v):
        if isinstance(v, IterDesc):
            return v
        v = ex.force(v)
        if isinstance(v, tuple):
            return IterDesc('pytuple', items=list(v))
        if not isinstance(v, z3.ExprRef):
            raise Unsupported('iteration over %r' % (v,))
        d = ex.iter_descs.get(L.simp(v).get_id()) if hasattr(ex, 'iter_descs') else None
        if d is not None:
            return d
        if ex.branch(z3.Or(L.is_List(v), L.is_Tuple(v)), 'iter-seq'):
            ref = Val.lref(v) if ex.branch(L.is_List(v), 'iter-list') else Val.tref(v)
            # TSI-6 is a heap invariant of every container that existed before this activation (as in iter_snapshot)
            from .families import CAP
            n = ex.heap.llen(ref)
            ex.assume(z3.And(n >= 0, z3.Or(ex.is_fresh(ref), n <= CAP)))
            return IterDesc('seq', ref=ref)
        if ex.branch(L.is_Str(v), 'iter-str'):
            return IterDesc('str', sid=Val.s(v))
        if ex.branch(L.is_Dict(v), 'iter-dict'):
            return IterDesc('dictkeys', ref=Val.dref(v))
        if ex.branch(L.is_Opaque(v), 'iter-opaque'):
            return IterDesc('unknown')
        ex.raise_('TypeError', 'not iterable')

    def cond(self, ex, d, i):
        k = d.kind
        h = ex.heap
        if k == 'seq':
            return i < h.llen(d.ref)
        if k == 'reversed':
            return i < d.n
        if k == 'str':
            return i < L.slen(d.sid)
        if k in ('dictkeys', 'dictitems', 'dictvalues'):
            return i < h.dlen(d.ref)
        if k == 'range':
            if getattr(d, 'down', False):
                return d.start + i * d.step > d.stop
            return d.start + i * d.step < d.stop
        if k == 'zip':
            return z3.And([self.cond(ex, x, i) for x in d.parts])
        if k == 'enumerate':
            return self.cond(ex, d.inner, i)
        if k == 'pytuple':
            return i < len(d.items)
        if k == 'unknown':
            if not hasattr(d, 'more'):
                d.more = z3.Function(ex.fresh_name('more'), I, z3.BoolSort())
            return d.more(i)
        raise Unsupported('iter kind %s' % k)

    def elem(self, ex, d, i):
        k = d.kind
        h = ex.heap
        shapes = self.engine.shapes
        if k == 'seq':
            from .families import CAP
            ex.assume(z3.Or(ex.is_fresh(d.ref), h.llen(d.ref) <= CAP))
            v = ex.known(h.lelt(d.ref, i))
            ty = shapes.elem_ty(ex, d.ref)
            if ty is not None:
                shapes.assume(ex, v, ty)
            else:
                ex.assume_elem(v)
            return v
        if k == 'reversed':
            v = ex.known(h.lelt(d.ref, d.n - 1 - i))
            ty = shapes.elem_ty(ex, d.ref)
            if ty is not None:
                shapes.assume(ex, v, ty)
            else:
                ex.assume_elem(v)
            return v
        if k == 'str':
            s = ex.fresh_str('ch')
            ex.assume(L.slen(Val.s(s)) == 1)
            return s
        if k in ('dictkeys', 'dictitems', 'dictvalues'):
            from .families import CAP
            ex.assume(z3.Or(ex.is_fresh(d.ref), h.dlen(d.ref) <= CAP))
            key = ex.known(h.dkey(d.ref, i))
            ex.assume(h.dhas(d.ref, key))
            ex.assume_elem(key)
            if k == 'dictkeys':
                return key
            val = ex.known(h.dval(d.ref, key))
            ex.assume_elem(val)
            if k == 'dictvalues':
                return val
            return (key, val)
        if k == 'range':
            return L.IntV(d.start + i * d.step)
        if k == 'zip':
            return tuple(self.elem(ex, x, i) for x in d.parts)
        if k == 'enumerate':
            return (L.IntV(i), self.elem(ex, d.inner, i))
        if k == 'pytuple':
            raise Unsupported('symbolic index into static tuple')
        if k == 'unknown':
            v = ex.fresh_val('item')
            ex.known(v)
            return v
        raise Unsupported('iter kind %s' % k)

    # -- invariants ----------------------------------------------------------------------------
    def collect_invs(self, ex, key, env, i, extra=None):
        invs = []
        names = self.cur_mod_names.get(key, ())
        for fam in ex.families:
            invs.extend(fam.loop_invariants(ex, env, names))
        fn = self.sidecar(ex, self.invariants, key)
        if fn is not None:
            invs.extend(fn(ex, env, i))
        for n, pname, props, pf in self.var_invs.get(key, ()):
            if env is not None and env.has(n):
                v = env.lookup(n)
                if isinstance(v, z3.ExprRef) and v.sort() == Val:
                    invs.append(('variable-%s-%s' % (n, pname), props, pf(ex, v)))
        if extra:
            invs.extend(extra(i))
        return invs

    def check_invs(self, ex, key, env, i, phase, extra=None):
        for name, props, f in self.collect_invs(ex, key, env, i, extra):
            import re
            who = re.sub(r'\{(=[^}]*|other)\}$', '', key[0].split(':')[-1])
            ex.prove('%s#loop%s:%s[%s]' % (who, key[1], name, phase), props, f, soft=True)

    def assume_invs(self, ex, key, env, i, extra=None):
        for name, props, f in self.collect_invs(ex, key, env, i, extra):
            ex.assume(f)
        ax = self.sidecar(ex, self.axioms, key)
        if ax is not None:
            for f in ax(ex, env, i):
                ex.assume(f)

    def havoc_for_body(self, ex, env, body_nodes, names, force=False):
        if has_effects(body_nodes) or force:
            ex.havoc(['F_ops_evaluated'])
            ex.havoc_data()
            ex.havoc_alloc()
            ex.heap.g['nodes'] = ex.fresh_int('nodes')
            for n in body_nodes:
                for x in ast.walk(n):
                    if isinstance(x, ast.Attribute) and isinstance(x.ctx, ast.Store):
                        ex.havoc(['F_' + x.attr])
            for fam in ex.families:
                fam.on_loop_havoc(ex)
        for n in names:
            e = env
            while e is not None and n not in e.vars:
                e = e.parent
            if e is not None:
                old = e.vars[n]
                if isinstance(old, z3.ExprRef):
                    nv = ex.fresh_val(n)
                    ex.known(nv)
                    e.vars[n] = nv
                    ex.loop_var_havoced(n, old, nv)
                else:
                    raise Unsupported('loop modifies non-symbolic local %s' % n)

    # -- the generic loop ------------------------------------------------------------------------------
    def run_loop(self, ex, key, env, desc, bind, body, body_nodes, mod_names, extra_inv=None, on_exit=None,
                 own_lists=(), own_dicts=()):
        self.cur_mod_names[key] = [n for n in mod_names if env.has(n)]
        ex.event('loop_enter', key)
        self.check_invs(ex, key, env, z3.IntVal(0), 'entry', extra_inv)
        pre_existing = [n for n in mod_names if env.has(n)]
        def havoc():
            # containers the loop itself fills are not framed by the loop havoc
            if not has_effects(body_nodes):
                # a pure body: only the containers under construction change from step to step
                h = ex.heap
                for r in own_lists:
                    h.set('LLEN', z3.Store(h.arr('LLEN'), r, ex.fresh_int('len')))
                    h.set('LELT', z3.Store(h.arr('LELT'), r, z3.Const(ex.fresh_name('elts'), z3.ArraySort(I, Val))))
                for r in own_dicts:
                    h.set('DLEN', z3.Store(h.arr('DLEN'), r, ex.fresh_int('len')))
                    h.set('DHAS', z3.Store(h.arr('DHAS'), r, z3.Const(ex.fresh_name('dhas'), z3.ArraySort(Val, z3.BoolSort()))))
                    h.set('DVAL', z3.Store(h.arr('DVAL'), r, z3.Const(ex.fresh_name('dval'), z3.ArraySort(Val, Val))))
                    h.set('DKEY', z3.Store(h.arr('DKEY'), r, z3.Const(ex.fresh_name('dkey'), z3.ArraySort(I, Val))))
                self.havoc_for_body(ex, env, body_nodes, pre_existing)
                return
            for r in own_lists:
                ex.unprotect(r)
            for r in own_dicts:
                ex.unprotect_dict(r)
            self.havoc_for_body(ex, env, body_nodes, pre_existing, force=bool(own_lists or own_dicts))
            for r in own_lists:
                ex.protect(r)
            for r in own_dicts:
                ex.protect_dict(r)
        if ex.branch(ex.fresh_bool('loop_iter'), 'loop-iter'):
            havoc()
            i = ex.fresh_int('i')
            ex.assume(i >= 0)
            self.assume_invs(ex, key, env, i, extra_inv)
            ex.assume(self.cond(ex, desc, i))
            ex.event('loop_iter', key, i)
            el = self.elem(ex, desc, i)
            ex.event('loop_elem', key, i, el)
            bind(el, i)
            pb = self.sidecar(ex, self.post_bind_axioms, key)
            if pb is not None:
                for f in pb(ex, env, i):
                    ex.assume(f)
            try:
                body(i)
            except ContinueEx:
                pass
            except BreakEx:
                # the loop ends in the middle of an arbitrary iteration: what follows the loop sees this state
                ex.event('loop_break', key, i)
                return 'break'
            hook = getattr(ex.task.contract, 'on_iteration', None)
            if hook is not None:
                hook(ex, key, i, desc)
            self.check_invs(ex, key, env, i + 1, 'preserved', extra_inv)
            raise PathEnd()
        else:
            havoc()
            i = ex.fresh_int('n')
            ex.assume(i >= 0)
            self.assume_invs(ex, key, env, i, extra_inv)
            ex.assume(z3.Not(self.cond(ex, desc, i)))
            if not has_effects(body_nodes):
                # nothing the body does can change the iterated object: the loop ran exactly while cond held
                ex.assume(z3.Or(i == 0, self.cond(ex, desc, i - 1)))
            ex.event('loop_exit', key, i)
            if on_exit:
                on_exit(i)
            return 'exit'

    def accumulator_idiom(self, ex, st, env):
        """`acc = []` ... `for T in IT: t1 = e1; ...; acc.append(E)`   (or  `acc = {}` ... `acc[K] = V`)
        with acc a container this activation allocated, still empty and mentioned nowhere else in the loop: the loop
        IS the comprehension `[E for T in IT]` with the temporaries in front of the element - it gets the same
        generated invariants (length == index, element K == body at K), so a comprehension rewritten as a loop (or
        the reverse) proves the same clauses.  Returns True if it ran the loop."""
        body = list(st.body)
        if st.orelse or not body:
            return False
        last = body[-1]
        kind = None
        if isinstance(last, ast.Expr) and isinstance(last.value, ast.Call) and isinstance(last.value.func, ast.Attribute) \
                and last.value.func.attr == 'append' and isinstance(last.value.func.value, ast.Name) \
                and len(last.value.args) == 1 and not last.value.keywords and not isinstance(last.value.args[0], ast.Starred):
            kind, acc, exprs = 'list', last.value.func.value.id, [last.value.args[0]]
        elif isinstance(last, ast.Assign) and len(last.targets) == 1 and isinstance(last.targets[0], ast.Subscript) \
                and isinstance(last.targets[0].value, ast.Name) and not isinstance(last.targets[0].slice, ast.Slice):
            kind, acc, exprs = 'dict', last.targets[0].value.id, [last.targets[0].slice, last.value]
        if kind is None:
            return False
        prelude = body[:-1]
        for p in prelude:
            if not (isinstance(p, ast.Assign) and all(isinstance(t, ast.Name) for t in p.targets)):
                return False
        mentions = lambda nodes: any(isinstance(x, ast.Name) and x.id == acc for n in nodes for x in ast.walk(n))
        if mentions(prelude) or mentions(exprs) or mentions([st.iter, st.target]):
            return False
        if any(isinstance(x, (ast.Break, ast.Continue, ast.Return, ast.Yield, ast.YieldFrom)) for n in body for x in ast.walk(n)):
            return False
        if not env.has(acc):
            return False
        v = env.lookup(acc)
        if not isinstance(v, z3.ExprRef):
            return False
        v = L.simp(v)
        if kind == 'list':
            if not (z3.is_app(v) and v.decl().name() == 'ListV'):
                return False
            ref = v.arg(0)
            empty = ex.heap.llen(ref) == 0
        else:
            if not (z3.is_app(v) and v.decl().name() == 'DictV'):
                return False
            ref = v.arg(0)
            empty = ex.heap.dlen(ref) == 0
        if ex.check_sat(z3.Not(z3.And(ex.is_fresh(ref), empty))) != z3.unsat:
            return False
        gen = ast.comprehension(target=st.target, iter=st.iter, ifs=[], is_async=0)
        if kind == 'list':
            node = ast.ListComp(elt=exprs[0], generators=[gen])
        else:
            # dict idiom: temporaries before the key; the value follows the key (Python evaluates `acc[K] = V` as V then K,
            # so only accept it when that order cannot be observed: K is a name or a constant)
            if not isinstance(exprs[0], (ast.Name, ast.Constant, ast.Attribute)):
                return False
            node = ast.DictComp(key=exprs[0], value=exprs[1], generators=[gen])
        ast.copy_location(node, st)
        ast.fix_missing_locations(node)
        # the loop statement itself is the loop the sidecar keys (ordinal) refer to
        self._idiom_key = self.loop_key(ex, st)
        try:
            if kind == 'list':
                self.list_comp(ex, node, env, prelude=prelude, into=ref, loop_env=env)
            else:
                self.dict_comp(ex, node, env, prelude=prelude, into=ref, loop_env=env)
        finally:
            self._idiom_key = None
        return True

    def for_loop(self, ex, st, env):
        if isinstance(st.iter, ast.Call) and isinstance(st.iter.func, ast.Name) and st.iter.func.id == 'iter' \
                and len(st.iter.args) == 2 and not st.iter.keywords and not st.orelse and not env.has('iter'):
            # `for T in iter(F, S): BODY`  is  `while True: T = F(); if T == S: break; BODY`  (F, S evaluated once)
            f, s = '.iter_f%d' % st.lineno, '.iter_s%d' % st.lineno
            env.vars[f] = ex.eval(st.iter.args[0], env)
            env.vars[s] = ex.eval(st.iter.args[1], env)
            loop = ast.While(test=ast.Constant(value=True), orelse=[], body=[
                ast.Assign(targets=[st.target], value=ast.Call(func=ast.Name(id=f, ctx=ast.Load()), args=[], keywords=[])),
                ast.If(test=ast.Compare(left=st.target if isinstance(st.target, ast.Name) else ast.Name(id=f, ctx=ast.Load()),
                                        ops=[ast.Eq()], comparators=[ast.Name(id=s, ctx=ast.Load())]),
                       body=[ast.Break()], orelse=[])] + list(st.body))
            if isinstance(st.target, ast.Name):
                loop.body[1].test.left = ast.Name(id=st.target.id, ctx=ast.Load())
                ast.copy_location(loop, st)
                ast.fix_missing_locations(loop)
                self._idiom_key = self.loop_key(ex, st)
                try:
                    return self.while_loop(ex, loop, env)
                finally:
                    self._idiom_key = None
        if self.accumulator_idiom(ex, st, env):
            return
        key = self.loop_key(ex, st)
        self.check_shape(ex, key, st)
        desc = self.describe(ex, ex.eval(st.iter, env))
        if desc.kind == 'seq' and not has_calls(st.body):
            n = L.simp(ex.heap.llen(desc.ref))
            if not z3.is_int_value(n):
                # the length may be fixed by the path condition (a list built by this grammar alternative)
                m = ex.solver.model() if ex.check_sat() == z3.sat else None
                if m is not None:
                    c = m.eval(n, model_completion=True)
                    if z3.is_int_value(c) and c.as_long() <= 8 and ex.check_sat(n != c) == z3.unsat:
                        n = c
            if z3.is_int_value(n) and n.as_long() <= 8:
                for k in range(n.as_long()):
                    ex.assign(st.target, self.elem(ex, desc, z3.IntVal(k)), env)
                    try:
                        ex.exec_block(st.body, env)
                    except ContinueEx:
                        continue
                    except BreakEx:
                        return
                ex.exec_block(st.orelse, env)
                return
        if desc.kind == 'str':
            lit = ex.lit_of(L.StrV(desc.sid))
            if lit is not None and len(lit) <= 8:
                for ch in lit:
                    ex.assign(st.target, ex.str_lit(ch), env)
                    try:
                        ex.exec_block(st.body, env)
                    except ContinueEx:
                        continue
                    except BreakEx:
                        return
                ex.exec_block(st.orelse, env)
                return
        if desc.kind == 'pytuple':
            for item in desc.items:
                ex.assign(st.target, item, env)
                try:
                    ex.exec_block(st.body, env)
                except ContinueEx:
                    continue
                except BreakEx:
                    return
            ex.exec_block(st.orelse, env)
            return
        names = assigned_names(st.body) | assigned_names([st.target])

        def bind(v, i):
            ex.assign(st.target, v, env)

        def body(i):
            ex.exec_block(st.body, env)
        # the target variable may not exist before the loop
        for n in assigned_names([st.target]):
            if not env.has(n):
                pass
        if self.run_loop(ex, key, env, desc, bind, body, st.body, names) != 'break':
            ex.exec_block(st.orelse, env)

    # candidate invariants about loop-carried variables, kept when they hold on entry (and then have to be preserved):
    # what a variable *is* is carried from one iteration to the next, whatever the loop looks like
    VAR_PREDICATES = [
        ('is-a-token-or-None', ['C18', 'C11'],
         lambda ex, v: z3.Or(L.is_None(v), z3.And(L.is_Obj(v), L.cls_of(Val.oref(v)) == ex.engine.shapes.cid('LexToken')))),
    ]

    def var_candidates(self, ex, key, env, names):
        out = []
        for n in sorted(names):
            if not env.has(n):
                continue
            v = env.lookup(n)
            if not (isinstance(v, z3.ExprRef) and v.sort() == Val):
                continue
            for pname, props, fn in self.VAR_PREDICATES:
                if ex.check_sat(z3.Not(fn(ex, v))) == z3.unsat:
                    out.append((n, pname, props, fn))
        self.var_invs[key] = out

    def check_shape(self, ex, key, st):
        chk = self.shape_checks.get(key)
        if chk is not None and self._idiom_key is None and not chk(st):
            # a loop with a hand-written (sidecar) invariant was rewritten into another kind of loop: the invariant
            # says nothing about the new one.  That is "needs a new invariant" - undecided, never a violation
            raise Unsupported('the loop annotated in the sidecar contract of %s was rewritten: it needs a new invariant' % key[0].split(':')[-1])

    def while_loop(self, ex, st, env):
        key = self.loop_key(ex, st)
        self.check_shape(ex, key, st)
        names = assigned_names(st.body)
        self.var_candidates(ex, key, env, names)
        self.cur_mod_names[key] = [n for n in names if env.has(n)]
        self.check_invs(ex, key, env, z3.IntVal(0), 'entry')
        pre_existing = [n for n in names if env.has(n)]
        const_true = isinstance(st.test, ast.Constant) and st.test.value is True
        if const_true or ex.branch(ex.fresh_bool('loop_iter'), 'while-iter'):
            self.havoc_for_body(ex, env, st.body, pre_existing)
            i = ex.fresh_int('i')
            ex.assume(i >= 0)
            self.assume_invs(ex, key, env, i)
            ex.event('loop_iter', key, i)
            if not const_true:
                c = ex.eval(st.test, env)
                ex.assume(ex.truthy(c))
            try:
                ex.exec_block(st.body, env)
            except ContinueEx:
                pass
            except BreakEx:
                ex.event('loop_break', key, i)
                return
            self.check_invs(ex, key, env, i + 1, 'preserved')
            raise PathEnd()
        else:
            self.havoc_for_body(ex, env, st.body, pre_existing)
            i = ex.fresh_int('n')
            ex.assume(i >= 0)
            self.assume_invs(ex, key, env, i)
            c = ex.eval(st.test, env)
            ex.assume(z3.Not(ex.truthy(c)))
            ex.exec_block(st.orelse, env)

    # -- comprehensions -----------------------------------------------------------------------------------
    def nested_comp(self, ex, node, env, kind):
        """[e for x in a for y in b if c] as the loops it abbreviates, filling a new list / dict"""
        if any(g.is_async for g in node.generators):
            raise Unsupported('async comprehension')
        cenv = Env(env)
        acc = '.acc%d' % node.lineno
        if kind == 'list':
            cenv.vars[acc] = L.ListV(ex.new_list(z3.IntVal(0), z3.K(I, L.NoneV)))
            inner = [ast.Expr(value=ast.Call(func=ast.Attribute(value=ast.Name(id=acc, ctx=ast.Load()), attr='append', ctx=ast.Load()),
                                            args=[node.elt], keywords=[]))]
        else:
            cenv.vars[acc] = L.DictV(ex.new_dict())
            inner = [ast.Assign(targets=[ast.Subscript(value=ast.Name(id=acc, ctx=ast.Load()), slice=node.key, ctx=ast.Store())],
                                value=node.value)]
        for g in reversed(node.generators):
            for c in reversed(g.ifs):
                inner = [ast.If(test=c, body=inner, orelse=[])]
            inner = [ast.For(target=g.target, iter=g.iter, body=inner, orelse=[])]
        for st in inner:
            ast.copy_location(st, node)
            ast.fix_missing_locations(st)
        ex.exec_block(inner, cenv)
        return cenv.vars[acc]

    def list_comp(self, ex, node, env, prelude=(), into=None, loop_env=None):
        """prelude / into / loop_env: the same machinery runs the accumulator idiom
        `acc = []; for T in IT: <temps>; acc.append(E)` (see accumulator_idiom)"""
        if len(node.generators) != 1:
            return self.nested_comp(ex, node, env, 'list')
        if node.generators[0].is_async:
            raise Unsupported('nested comprehension')
        gen = node.generators[0]
        key = self.loop_key(ex, node)
        desc = self.describe(ex, ex.eval(gen.iter, env))
        cenv = loop_env if loop_env is not None else Env(env)
        res = into if into is not None else ex.new_list(z3.IntVal(0), z3.K(I, L.NoneV))
        filtered = bool(gen.ifs)
        ex.comp_results = getattr(ex, 'comp_results', [])

        pure = not has_effects([node.elt] + list(gen.ifs) + list(prelude)) and not filtered
        J = z3.Int('K_view')
        body_at_J = None
        if pure and desc.kind in ('seq', 'dictkeys', 'dictvalues', 'dictitems', 'reversed', 'range', 'enumerate', 'zip'):
            try:
                jenv = Env(env)
                saved_events = list(ex.events)
                ex.assign(gen.target, self.elem(ex, desc, J), jenv)
                ex.exec_block(list(prelude), jenv)
                body_at_J = ex.to_val(ex.eval(node.elt, jenv))
                allocated = any(e[0] == 'alloc' for e in ex.events[len(saved_events):])
                ex.events = saved_events
                if allocated:
                    # an element that is a new object each time (a tuple / list display) is never *identical* to the
                    # one built when the invariant was written down: no element-wise invariant for such bodies
                    raise Unsupported('allocating comprehension body')
                ex.comp_body_at = getattr(ex, 'comp_body_at', {})
                ex.comp_body_at[L.simp(res).get_id()] = (res, J, body_at_J, desc)
            except Unsupported:
                body_at_J = None

        def extra(i):
            n = ex.heap.llen(res)
            from .families import CAP
            cap = ('index-within-cap<%s>' % desc.kind, ['C03'], i <= CAP)
            if filtered:
                return [('comp-len', ['C03', 'C07'], z3.And(n >= 0, n <= i)), cap]
            out = [('comp-len', ['C03', 'C07'], n == i), cap]
            if body_at_J is not None:
                out.append(('comp-elements', ['C07', 'C14'], z3.Implies(z3.And(J >= 0, J < i), ex.heap.lelt(res, J) == body_at_J)))
            return out

        def bind(v, i):
            ex.assign(gen.target, v, cenv)

        def body(i):
            for cnd in gen.ifs:
                c = ex.eval(cnd, cenv)
                if not ex.branch(ex.truthy(ex.to_val(c)), 'comp-if'):
                    return
            ex.exec_block(list(prelude), cenv)
            v = ex.to_val(ex.eval(node.elt, cenv))
            n = ex.heap.llen(res)
            ex.event('comp_elem', key, res, i, v)
            ex.list_write('append', res, n + 1, z3.Store(ex.heap.lelts(res), n, v), stored=(v,))

        body_nodes = [node.elt] + list(gen.ifs) + list(prelude)
        ex.protect(res)      # nobody else can reach the list under construction
        self.run_loop(ex, key, cenv, desc, bind, body, body_nodes, set(), extra, own_lists=[res])
        ex.unprotect(res)
        ex.event('comp_done', key, res, desc)
        return L.ListV(res)

    def dict_comp(self, ex, node, env, prelude=(), into=None, loop_env=None, mid=()):
        if len(node.generators) != 1:
            return self.nested_comp(ex, node, env, 'dict')
        gen = node.generators[0]
        key = self.loop_key(ex, node)
        desc = self.describe(ex, ex.eval(gen.iter, env))
        cenv = loop_env if loop_env is not None else Env(env)
        res = into if into is not None else ex.new_dict()

        def extra(i):
            n = ex.heap.dlen(res)
            from .families import CAP
            return [('comp-len', ['C03', 'C07'], z3.And(n >= 0, n <= i)),
                    ('index-within-cap<%s>' % desc.kind, ['C03'], i <= CAP)]

        def bind(v, i):
            ex.assign(gen.target, v, cenv)

        def body(i):
            for cnd in gen.ifs:
                c = ex.eval(cnd, cenv)
                if not ex.branch(ex.truthy(ex.to_val(c)), 'comp-if'):
                    return
            ex.exec_block(list(prelude), cenv)
            k = ex.to_val(ex.eval(node.key, cenv))
            ex.exec_block(list(mid), cenv)
            v = ex.to_val(ex.eval(node.value, cenv))
            ex.event('dictcomp_elem', key, res, i, k, v)
            self.engine.model.dict_store(ex, res, k, v, internal=True)

        ex.protect_dict(res)
        self.run_loop(ex, key, cenv, desc, bind, body, [node.key, node.value] + list(gen.ifs) + list(prelude) + list(mid), set(), extra,
                      own_dicts=[res])
        ex.unprotect_dict(res)
        ex.event('dictcomp_done', key, res, desc)
        return L.DictV(res)
