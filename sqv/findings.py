"""KNOWN_FINDINGS.jsonl: genuine defects of the unchanged tree that are recorded, not repaired.

A 'known' entry names one obligation and the branch (condition over the function's symbolic
inputs / path) on which it fails; an obligation refuted OUTSIDE every recorded branch is still a
violation.  'fixed' entries suppress nothing."""
import json
import os
import re

ROOT = os.path.dirname(os.path.dirname(os.path.abspath(__file__)))

_P_RULE = re.compile(r"^(C\d\d):p_\w+\[")
_TABLE_ENTRY = re.compile(r"FUNCTIONS\[('[^']*')\] = (?:FUNCTIONS\['[^']*'\]|[^:\[]+)")


def lock_key(name):
    """obligation names are keyed by what they speak about: the production, not the p_* function that carries it
    (PLY does not care either); the key of the builtin table, not the def it happens to name"""
    return _TABLE_ENTRY.sub(r"FUNCTIONS[\1]", _P_RULE.sub(r"\1:p_*[", name))


_WITHIN_CAP = [re.compile(r"^(?:C03:)?(.+?)(?:#loop\d+)?:index-within-cap<[^>]*>\[[^\]]*\]$"),
               re.compile(r"^C03:(.+?):result-within-cap\[.*\]$"),
               re.compile(r"^C03:(.+?):length-within-cap-after-.*$")]


def finding_key(name):
    """what a recorded finding is matched by: the function and the KIND of clause, not the way the code happens to build
    the container (a list() call, a comprehension, a loop with append give differently named clauses of one family)"""
    n = lock_key(name)
    for rx in _WITHIN_CAP:
        m = rx.match(n)
        if m:
            return 'C03:%s:within-cap' % m.group(1)
    return n


def load():
    out = []
    p = os.path.join(ROOT, 'KNOWN_FINDINGS.jsonl')
    if os.path.exists(p):
        with open(p) as f:
            for line in f:
                line = line.strip()
                if line:
                    out.append(json.loads(line))
    return out


def known():
    return [f for f in load() if f.get('status') == 'known']


def install(engine, prop):
    """attach the branch conditions of the known findings to the obligations they belong to"""
    try:
        from contracts import finding_conds
    except ImportError:
        return
    for f in known():
        cond = finding_conds.CONDS.get(f['id'])
        if cond is None:
            continue
        for name in f['obligations']:
            engine.finding_conds.setdefault(finding_key(name), []).append((f['id'], cond))
