"""KNOWN_FINDINGS.jsonl: genuine defects of the unchanged tree that are recorded, not repaired.

A 'known' entry names one obligation and the branch (condition over the function's symbolic
inputs / path) on which it fails; an obligation refuted OUTSIDE every recorded branch is still a
violation.  'fixed' entries suppress nothing."""
import json
import os

ROOT = os.path.dirname(os.path.dirname(os.path.abspath(__file__)))


def load():
    out = []
    p = os.path.join(ROOT, 'KNOWN_FINDINGS.jsonl')
    if os.path.exists(p):
        with open(p) as f:
            for line in f:
                line = line.strip()
                if line:
                    out.append(json.loads(line))
    return out


def known():
    return [f for f in load() if f.get('status') == 'known']


def install(engine, prop):
    """attach the branch conditions of the known findings to the obligations they belong to"""
    try:
        from contracts import finding_conds
    except ImportError:
        return
    for f in known():
        cond = finding_conds.CONDS.get(f['id'])
        if cond is None:
            continue
        for name in f['obligations']:
            engine.finding_conds.setdefault(name, []).append((f['id'], cond))
