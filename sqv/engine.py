"""Engine: global tables, name resolution, task runner (path exploration)."""
import ast
import time
import os
import traceback
import z3

from . import logic as L
from .logic import Val, I, B
from .symex import (Exec, Env, St, Closure, BoundMethod, PyRaise, ReturnEx, PathEnd, Unsupported,
                    Obligation, BreakEx, ContinueEx)
from .shapes import Shapes
from .pyfront import Source, FuncInfo

BUILTIN_NAMES = {
    'len', 'str', 'int', 'float', 'list', 'dict', 'tuple', 'min', 'max', 'sum', 'sorted', 'reversed',
    'enumerate', 'zip', 'filter', 'map', 'round', 'abs', 'isinstance', 'slice', 'range', 'super', 'bool',
    'type', 'getattr', 'setattr', 'hasattr', 'eval', 'exec', 'compile', 'open', '__import__', 'print',
    'repr', 'iter', 'next', 'any', 'all', 'set', 'frozenset', 'bytes', 'object', 'id', 'hash', 'callable',
    'vars', 'dir', 'globals', 'locals', 'input', 'format', 'chr', 'ord', 'divmod', 'pow',
    'Exception', 'BaseException', 'LookupError', 'KeyError', 'IndexError', 'ValueError', 'TypeError',
    'AttributeError', 'ArithmeticError', 'ZeroDivisionError', 'RuntimeError', 'SystemExit',
    'KeyboardInterrupt', 'StopIteration', 'OverflowError', 'TimeoutError', 'NotImplementedError',
}


class Task:
    """one function (or raw builtin) checked in one role"""

    def __init__(self, key, role, finfo=None, setup=None, families=(), contract=None, static=None, label=None):
        self.key = key
        self.role = role
        self.finfo = finfo
        self.setup = setup            # setup(ex) -> ctx dict with at least 'env'
        self.family_factories = list(families)
        self.contract = contract      # object with check(ex, ctx, outcome)
        self.static = static          # St for raw builtins
        self.watch = {}
        self.label = label or key
        self.body = None
        self.prologue = None
        self.case = None
        self.allowed_field_writes = ()


class TaskResult:
    def __init__(self, task):
        self.key = task.label
        self.role = task.role
        self.obligations = []
        self.paths = 0
        self.dead_paths = 0
        self.undecided = []
        self.errors = []
        self.time = 0.0
        self.outcomes = {'return': 0, 'raise': 0}

    def to_json(self):
        return {'key': self.key, 'role': self.role, 'paths': self.paths, 'dead_paths': self.dead_paths,
                'undecided': self.undecided, 'errors': self.errors, 'time': round(self.time, 3),
                'outcomes': self.outcomes,
                'obligations': [o.to_json() for o in self.obligations]}


class Engine:
    def __init__(self, src=None, props_filter=None, timeout_ms=10000, max_paths=4000):
        self.src = src or Source()
        self.shapes = Shapes(self.src)
        self.props_filter = set(props_filter) if props_filter else None
        self.timeout_ms = timeout_ms
        self.max_paths = max_paths
        self.task_budget_s = int(os.environ.get('SQV_TASK_BUDGET_S', '120'))
        self.task_deadline = float('inf')
        self.str_lits = {}
        self.static_ids = {}
        self.static_by_id = {}
        self.float_lits = {}
        self.contracts = {}          # function key -> callee-side contract object (apply)
        self.carry_c07 = (set(), set())
        self.carry = {}              # role of a callee under contract -> properties that carry its obligations
        self.missing_functions = []  # functions under contract that are not in the source (see contracts.common.add_task)
        self.finding_conds = {}      # obligation name -> [(finding id, cond(ex) -> z3 Bool)]
        self.keep_smt = False
        self.smt_sink = None
        self.lambda_index = {}
        for name, parent in self.src.exception_classes().items():
            L.register_exception(name, parent.split('.')[-1])
            if L.EXC_PARENT.get(name) != parent.split('.')[-1]:
                L.EXC_PARENT[name] = parent.split('.')[-1]      # the tree under check decides, every run
        from .pymodel import PyModel
        from .calls import Calls
        from .loops import Loops
        self.model = PyModel(self)
        self.calls = Calls(self)
        self.loops = Loops(self)
        # pre-register FUNCTIONS entries so that ids are stable across paths/processes
        for name in sorted(self.src.functions_table):
            self.static_id(self.functions_entry_static(name))

    def shapes_fields(self):
        from .shapes import FIELDS
        return FIELDS

    # -- statics ----------------------------------------------------------------
    def static_id(self, st):
        if st not in self.static_ids:
            k = len(self.static_ids) + 1
            self.static_ids[st] = k
            self.static_by_id[k] = st
        return self.static_ids[st]

    def static_val(self, ex, st):
        if st.kind == 'extconst':
            return L.IntV(z3.Int('const_' + st.name.replace('.', '_')))
        k = self.static_id(st)
        return L.FunV(k)

    def functions_entry_static(self, name):
        """the static entity a FUNCTIONS entry denotes"""
        node = self.src.functions_table[name]
        if isinstance(node, ast.Lambda):
            return St('func', 'smartquery.functions:FUNCTIONS[%r]' % name)
        if isinstance(node, ast.Name):
            g = self.src.globals['functions'].get(node.id)
            if g and g[0] == 'func':
                return St('func', g[1])
            if g and g[0] == 'import':
                return St('ext', g[1])
            return St('builtin', node.id)
        if isinstance(node, ast.Attribute):
            return St('ext', ast.unparse(node))
        return St('ext', ast.unparse(node))

    def resolve_global(self, ex, module, name):
        g = self.src.globals.get(module, {}).get(name)
        if g is not None:
            kind, v = g
            if kind == 'func':
                return St('func', v)
            if kind == 'class':
                return St('class', v)
            if kind == 'import':
                return self.resolve_import(ex, v)
            if kind == 'const':
                if name in self.src.mutable_globals.get(module, ()):
                    return ex.global_cell(module, name)
                return self.global_const(ex, module, name, v)
        if name in BUILTIN_NAMES:
            return St('builtin', name)
        if name in ('NotImplemented', 'Ellipsis'):
            # singletons of the host language: opaque objects, not language values
            return L.OpaqueV(L.OK['other'], z3.Int('PY_' + name))
        import builtins
        if hasattr(builtins, name) and not name.startswith('_'):
            return St('builtin', name)     # no stub: calling it is an unmodelled call with arbitrary effects
        raise Unsupported('unresolved name %s in %s' % (name, module))

    def resolve_import(self, ex, dotted):
        parts = dotted.split('.')
        if parts[0] == 'smartquery':
            if len(parts) == 2:
                return St('module', dotted)
            if parts[1] == 'ply':
                if len(parts) == 3:
                    return St('module', dotted)
                return St('ext', dotted)
            return self.resolve_global(ex, parts[1], parts[2])
        if len(parts) == 1:
            return St('module', dotted)
        if dotted in ('decimal.Decimal', 'typing.Iterable', 'typing.Callable', 'pathlib.Path', 'abc.ABC'):
            return St('extclass', dotted)
        return St('ext', dotted)

    def static_attr(self, ex, st, attr):
        if st.kind == 'module':
            if st.name.startswith('smartquery.') and st.name.count('.') == 1:
                return self.resolve_global(ex, st.name.split('.')[1], attr)
            if st.name == 'regex' and attr.isupper():
                return St('extconst', 'regex.' + attr)
            return St('ext', st.name + '.' + attr)
        if st.kind in ('builtin', 'extclass', 'class', 'ext'):
            return St('ext', st.name + '.' + attr)
        raise Unsupported('attribute %s of %r' % (attr, st))

    def float_lit(self, ex, v):
        key = repr(v)
        if key not in self.float_lits:
            self.float_lits[key] = len(self.float_lits) + 1
        fid = z3.IntVal(self.float_lits[key])
        ex.assume(L.flt_nonzero(fid) == (v != 0.0))
        return L.FloatV(fid)

    def global_const(self, ex, module, name, node):
        """value of a module-level constant (scalars folded; containers are pre-existing objects)"""
        cache = getattr(ex, 'global_objs', None)
        if cache is None:
            cache = ex.global_objs = {}
        if (module, name) in cache:
            return cache[(module, name)]
        if isinstance(node, ast.Constant):
            saved = ex.cur_module
            ex.cur_module = module
            v = ex.eval(node, Env())
            ex.cur_module = saved
        elif isinstance(node, ast.Dict):
            v = self.global_dict(ex, module, name, node)
        elif isinstance(node, ast.Tuple):
            saved = ex.cur_module
            ex.cur_module = module
            elts = []
            for e in node.elts:
                if isinstance(e, ast.Starred):
                    inner = ex.eval(e.value, Env())
                    if not isinstance(inner, tuple):
                        raise Unsupported('starred non-tuple in module tuple %s' % name)
                    elts.extend(inner)
                    continue
                elts.append(ex.eval(e, Env()))
            ex.cur_module = saved
            v = tuple(elts)
        elif isinstance(node, ast.Attribute) or isinstance(node, ast.Name):
            saved = ex.cur_module
            ex.cur_module = module
            v = ex.eval(node, Env())
            ex.cur_module = saved
        else:
            # e.g. a compiled pattern, a cache object: opaque, and whatever is done with it is an unmodelled call
            v = L.OpaqueV(L.OK['other'], z3.Int('G_%s_%s' % (module, name)))
            ex.event('opaque_module_constant', module, name)
        cache[(module, name)] = v
        return v

    def global_dict(self, ex, module, name, node):
        ref = z3.Int('G_%s_%s' % (module, name))
        ex.assume(ref >= 0)
        ex.assume(ref < ex.entry_next)
        has = z3.K(Val, z3.BoolVal(False))
        val = z3.K(Val, L.NoneV)
        keys = z3.K(I, L.NoneV)
        n = 0
        saved = ex.cur_module
        ex.cur_module = module
        items = []

        def add_items(dnode):
            for k, v in zip(dnode.keys, dnode.values):
                if k is None:
                    # ** unpacking of another module-level dict literal
                    g = self.src.globals[module].get(v.id) if isinstance(v, ast.Name) else None
                    if not g or g[0] != 'const' or not isinstance(g[1], ast.Dict):
                        raise Unsupported('** of non-literal in module dict')
                    add_items(g[1])
                else:
                    items.append((k, v))
        add_items(node)
        big = len(items) > 24
        if big:
            # a large table (the builtin table): its content is a named constant with one pointwise fact per entry.
            # A 100-fold store chain under an array equality costs z3 a second per query; nothing needs the closed world.
            has = z3.Const('TABLE_%s_%s_has' % (module, name), z3.ArraySort(Val, B))
            val = z3.Const('TABLE_%s_%s_val' % (module, name), z3.ArraySort(Val, Val))
            keys = z3.Const('TABLE_%s_%s_keys' % (module, name), z3.ArraySort(I, Val))
        for k, v in items:
            kv = ex.eval(k, Env())
            if module == 'functions' and name == 'FUNCTIONS' and isinstance(k, ast.Constant):
                vv = L.FunV(self.static_id(self.functions_entry_static(k.value)))
            else:
                vv = ex.to_val(ex.eval(v, Env()))
            if big:
                ex.assume(z3.Select(has, kv))
                ex.assume(z3.Select(val, kv) == vv)
                ex.assume(z3.Select(keys, n) == kv)
            else:
                has = z3.Store(has, kv, z3.BoolVal(True))
                val = z3.Store(val, kv, vv)
                keys = z3.Store(keys, n, kv)
            n += 1
        ex.cur_module = saved
        if name not in self.src.read_only_tables():
            # a module-level dict that some code may write (or hand to someone who does): it holds whatever earlier
            # calls left in it, not what the source text says
            ex.event('mutable_module_dict', module, name)
            ex.assume(z3.Select(ex.base_array('DLEN'), ref) >= 0)
            ex.global_refs = getattr(ex, 'global_refs', {})
            ex.global_refs[(module, name)] = ref
            return L.DictV(ref)
        # the global object is pristine in the pre-state (TSI-4 keeps it so)
        ex.assume(z3.Select(ex.base_array('DHAS'), ref) == has)
        ex.assume(z3.Select(ex.base_array('DVAL'), ref) == val)
        ex.assume(z3.Select(ex.base_array('DKEY'), ref) == keys)
        ex.assume(z3.Select(ex.base_array('DLEN'), ref) == n)
        ex.global_refs = getattr(ex, 'global_refs', {})
        ex.global_refs[(module, name)] = ref
        if name in self.src.read_only_tables():
            # only ever read, never aliased (syntactic escape analysis over the whole package): same content always
            ex.protect_dict(ref)
            for arr, v in (('DHAS', has), ('DVAL', val), ('DKEY', keys), ('DLEN', z3.IntVal(n))):
                ex.assume(z3.Select(ex.heap.arr(arr), ref) == v)
        ex.global_tables = getattr(ex, 'global_tables', {})
        ex.global_tables[ref.get_id()] = (has, val, [(L.simp(z3.Select(keys, k)), L.simp(z3.Select(val, z3.Select(keys, k)))) for k in range(n)] if not big else [])
        return L.DictV(ref)

    def index_lambda(self, ex, node):
        key = '%s.<lambda@%d>' % (ex.cur_func, node.lineno)
        if key not in self.src.funcs:
            self.src.funcs[key] = FuncInfo(key, ex.cur_module, key.split(':')[1], node)
        return self.src.funcs[key]

    def dump_smt(self, ex, goal):
        s = z3.Solver()
        for a in ex.solver.assertions():
            s.add(a)
        s.add(z3.Not(goal))
        return s.to_smt2()

    # -- running ------------------------------------------------------------------
    def run_task(self, task):
        res = TaskResult(task)
        t0 = time.time()
        self.task_deadline = t0 + self.task_budget_s
        work = [[]]
        seen = 0
        while work:
            decisions = work.pop()
            seen += 1
            if time.time() > self.task_deadline:
                res.undecided.append('time budget of %d s for one function exceeded' % self.task_budget_s)
                break
            if seen > self.max_paths:
                res.undecided.append('path budget %d exceeded' % self.max_paths)
                break
            ex = Exec(self, task, decisions)
            ex.families = [f(ex) for f in task.family_factories]
            try:
                self.run_path(ex, task, res)
            except PathEnd:
                res.dead_paths += 1
            except Unsupported as u:
                msg = 'unsupported: %s' % u
                if msg not in res.undecided:
                    res.undecided.append(msg)
            except (BreakEx, ContinueEx):
                res.undecided.append('break/continue outside loop')
            except z3.Z3Exception as e:
                res.errors.append('z3: %s\n%s' % (e, traceback.format_exc()))
            except RecursionError:
                res.undecided.append('interpreter recursion')
            except Exception as e:   # engine bug: checker error, never a verdict
                res.errors.append('%s: %s\n%s' % (type(e).__name__, e, traceback.format_exc()))
            res.obligations.extend(ex.obligations)
            work.extend(ex.new_paths)
        res.time = time.time() - t0
        return res

    def run_path(self, ex, task, res):
        ctx = task.setup(ex)
        if task.case is not None:
            ex.assume(task.case(ex, ctx))
        # reachability cover: requires + invariants must be satisfiable
        if ex.check_sat() == z3.unsat:
            raise PathEnd()
        if task.prologue is not None:
            fams = ex.families
            ex.families = []
            ex.in_prologue = True
            try:
                ctx = task.prologue(ex, ctx)
            finally:
                ex.families = fams
                ex.in_prologue = False
        for fam in ex.families:
            fam.on_entry(ex, ctx)
        if task.finfo is not None:
            odd = [d for d in task.finfo.decorators if d.split('(')[0] not in self.calls.KNOWN_DECORATORS]
            if odd:
                # the body is verified as written; what callers get is the body wrapped by a decorator the model
                # does not know (memoisation hands out objects of earlier calls, ...)
                ex.prove('C11:%s:carries-no-unmodelled-decorator[@%s]' % (task.label.split(':')[-1], odd[0]),
                         ['C%02d' % i for i in range(1, 21)], False, {'decorators': odd}, soft=True)
        outcome = None
        try:
            value = task.body(ex, ctx) if hasattr(task, 'body') and task.body else self.run_body(ex, task, ctx)
            outcome = ('return', value)
        except ReturnEx as r:
            outcome = ('return', r.value)
        except PyRaise as e:
            outcome = ('raise', e.cls)
        res.paths += 1
        res.outcomes[outcome[0]] += 1
        if outcome[0] == 'return':
            outcome = ('return', ex.to_val(outcome[1]))
        for fam in ex.families:
            fam.on_exit(ex, ctx, outcome)
        if task.contract is not None:
            task.contract.check(ex, ctx, outcome)

    def run_body(self, ex, task, ctx):
        fi = task.finfo
        ex.cur_func = task.label
        ex.cur_module = fi.module
        ex.cur_class = fi.cls
        ex.exec_block(fi.body(), ctx['env'])
        return L.NoneV
