"""Path-at-a-time symbolic executor for the Python subset the package uses (DESIGN 2.2-2.4).

One `Exec` object = one path through one function under contract.  Forks are taken by
re-executing the function from the start with a longer decision prefix, which lets the
interpreter be written in direct style: Python exceptions carry symbolic control flow.
"""
import ast
import time
import z3

from . import logic as L
from .logic import Val, I, B
from .findings import lock_key, finding_key


# ---------------------------------------------------------------------------
# control-flow carriers
# ---------------------------------------------------------------------------
class PyRaise(Exception):
    """a symbolic Python exception is propagating; cls is an int id or a z3 Int"""

    def __init__(self, cls, origin=''):
        Exception.__init__(self, origin)
        self.cls = cls
        self.origin = origin


class ReturnEx(Exception):
    def __init__(self, value):
        self.value = value


class BreakEx(Exception):
    pass


class ContinueEx(Exception):
    pass


# exception classes of dependencies under the name the stubs raise them by
EXC_ALIASES = {'regex.error': 'RegexError', 'regex.regex.error': 'RegexError', 'regex._regex_core.error': 'RegexError'}


class LazyGen:
    """a generator expression whose element or condition has effects: nothing of it runs before it is consumed"""

    def __init__(self, comp, env):
        self.comp = comp          # the equivalent list comprehension over the already evaluated outermost iterable
        self.env = env
        self.consumed = False


class PathEnd(Exception):
    """the path is over (assumption became inconsistent / loop iteration finished)"""


class Unsupported(Exception):
    """construct outside the supported subset: the function is UNDECIDED, never passed"""


# ---------------------------------------------------------------------------
# interpreter-level (non-symbolic) values
# ---------------------------------------------------------------------------
class St:
    """a static entity: module, external function, package function, class, builtin"""

    def __init__(self, kind, name):
        self.kind = kind      # 'module' | 'ext' | 'func' | 'class' | 'builtin' | 'extclass'
        self.name = name

    def __repr__(self):
        return 'St(%s:%s)' % (self.kind, self.name)

    def __eq__(self, o):
        return isinstance(o, St) and (self.kind, self.name) == (o.kind, o.name)

    def __hash__(self):
        return hash((self.kind, self.name))


class BoundMethod:
    def __init__(self, recv, name):
        self.recv = recv
        self.name = name


class Closure:
    """a nested def / lambda created on this path"""

    def __init__(self, finfo, env, fid):
        self.finfo = finfo
        self.env = env
        self.fid = fid          # z3 Int: the FunV id it is known by


class SuperProxy:
    def __init__(self, cls, self_val):
        self.cls = cls
        self.self_val = self_val


class Obligation:
    __slots__ = ('name', 'props', 'status', 'model', 'time', 'func', 'path', 'info', 'static')

    def __init__(self, name, props, status, func, path, model=None, t=0.0, info=None, static=False):
        self.name = name
        self.props = props
        self.status = status       # 'proved' | 'refuted' | 'unknown'
        self.model = model
        self.time = t
        self.func = func
        self.path = path
        self.info = info
        self.static = static

    def to_json(self):
        info = {}
        for k, v in (self.info or {}).items():
            if k == 'watch':
                continue
            info[k] = v if isinstance(v, (str, int, float, bool, list, dict, type(None))) else str(v)
        return {'name': self.name, 'props': sorted(self.props), 'status': self.status,
                'func': self.func, 'path': self.path, 'model': self.model, 'time': round(self.time, 4),
                'info': info, 'static': self.static}


class Env:
    def __init__(self, parent=None):
        self.vars = {}
        self.parent = parent
        self.global_names = set()       # names a `global` statement of this function frame refers to
        self.nonlocal_names = set()

    def declares_global(self, name):
        e = self
        while e is not None:
            if name in e.global_names:
                return True
            e = e.parent
        return False

    def lookup(self, name):
        e = self
        while e is not None:
            if name in e.vars:
                return e.vars[name]
            e = e.parent
        raise KeyError(name)

    def has(self, name):
        e = self
        while e is not None:
            if name in e.vars:
                return True
            e = e.parent
        return False


class Heap:
    """a snapshot of the symbolic heap: overrides on top of the path's base arrays"""

    SORTS = {
        'LLEN': z3.ArraySort(I, I),
        'LELT': z3.ArraySort(I, z3.ArraySort(I, Val)),
        'DLEN': z3.ArraySort(I, I),
        'DHAS': z3.ArraySort(I, z3.ArraySort(Val, B)),
        'DVAL': z3.ArraySort(I, z3.ArraySort(Val, Val)),
        'DKEY': z3.ArraySort(I, z3.ArraySort(I, Val)),
    }

    def __init__(self, ex, arrays=None, ghost=None):
        self.ex = ex
        self.a = dict(arrays or {})
        self.g = dict(ghost or {})

    def copy(self):
        return Heap(self.ex, self.a, self.g)

    def arr(self, name):
        if name not in self.a:
            return self.ex.base_array(name)
        return self.a[name]

    def set(self, name, value):
        self.a[name] = value

    def ghost(self, name):
        if name not in self.g:
            return self.ex.base_ghost(name)
        return self.g[name]

    # convenience accessors
    def fld(self, name, ref):
        return z3.Select(self.arr('F_' + name), ref)

    def llen(self, ref):
        return z3.Select(self.arr('LLEN'), ref)

    def lelts(self, ref):
        return z3.Select(self.arr('LELT'), ref)

    def lelt(self, ref, i):
        return z3.Select(z3.Select(self.arr('LELT'), ref), i)

    def dlen(self, ref):
        return z3.Select(self.arr('DLEN'), ref)

    def dhas(self, ref, k):
        return z3.Select(z3.Select(self.arr('DHAS'), ref), k)

    def dval(self, ref, k):
        return z3.Select(z3.Select(self.arr('DVAL'), ref), k)

    def dkey(self, ref, i):
        return z3.Select(z3.Select(self.arr('DKEY'), ref), i)


DATA_ARRAYS = ['LLEN', 'LELT', 'DLEN', 'DHAS', 'DVAL', 'DKEY']


class Exec:
    """one symbolic path"""

    def __init__(self, engine, task, decisions):
        self.engine = engine
        self.src = engine.src
        self.task = task
        self.decisions = list(decisions)
        self.pos = 0
        self.new_paths = []           # decision prefixes to explore later
        self.solver = z3.Solver()
        self.solver.set('timeout', engine.timeout_ms)
        self.pc_count = 0
        self.heap = Heap(self)
        self.base = {}
        self.baseg = {}
        self.counter = 0
        self.next_base = self.fresh_int('next')
        self.entry_next = self.next_base
        self.next_off = 0
        self.obligations = []
        self.events = []
        self.protected = []           # list refs whose contents callees never change
        self.closures = {}            # python id of fid term -> Closure
        self.func_stack = []
        self.notes = []
        self.assumptions_used = set()
        self.families = []
        self.cur_func = task.key
        self.cur_module = None
        self.cur_class = None
        self.depth = 0
        self.dead = False
        self.str_lits = engine.str_lits
        self.typed_refs = {}          # z3 ast id -> element type descriptor
        self.in_loop_iteration = False
        self.iter_descs = {}
        self.known_cls = {}           # z3 ast id of ref -> (ref, class name, exact)
        self.protected_dicts = []
        self.array_origin = {}
        self.unknown_vals = []
        self.deepcopies = []
        self.picks = []
        self.perms = []
        self.dict_views = []
        self.global_objs = {}
        self.global_refs = {}
        self.yield_hook = None
        self.handling = []          # exceptions being handled (innermost last): what a bare `raise` re-raises
        self.global_cells = {}
        self.exc_instances = {}
        self.formatted = []
        self.fstring_literals = []
        self.last_snapshot_kind = 'seq'
        self.loop_havocs = []

    # -- fresh symbols --------------------------------------------------------
    def fresh_name(self, stem):
        self.counter += 1
        return '%s!%d' % (stem, self.counter)

    def fresh_int(self, stem='i'):
        return z3.Int(self.fresh_name(stem))

    def fresh_bool(self, stem='b'):
        return z3.Bool(self.fresh_name(stem))

    def fresh_val(self, stem='v'):
        return z3.Const(self.fresh_name(stem), Val)

    def base_array(self, name):
        if name not in self.base:
            sort = Heap.SORTS.get(name, z3.ArraySort(I, Val))
            self.base[name] = z3.Const(name + '!0', sort)
        return self.base[name]

    def base_ghost(self, name):
        if name not in self.baseg:
            self.baseg[name] = z3.Int('ghost_' + name + '!0')
        return self.baseg[name]

    # -- path condition ------------------------------------------------------
    def assume(self, f):
        if isinstance(f, bool):
            f = z3.BoolVal(f)
        f = L.simp(f)
        if L.is_true(f):
            return
        self.solver.add(f)
        self.pc_count += 1
        if L.is_false(f):
            raise PathEnd()

    def check_sat(self, extra=None):
        if extra is None:
            r = self.solver.check()
        else:
            self.solver.push()
            self.solver.add(extra)
            r = self.solver.check()
            self.solver.pop()
        return r

    def branch(self, cond, label=''):
        """decide a two-way fork; returns the Python truth value taken on this path"""
        if isinstance(cond, bool):
            return cond
        if time.time() > self.engine.task_deadline:
            # a function that sends the executor into ever more paths / ever deeper inlining is undecided, never a hang
            raise Unsupported('time budget of %d s for one function exceeded' % self.engine.task_budget_s)
        cond = L.simp(cond)
        if L.is_true(cond):
            return True
        if L.is_false(cond):
            return False
        if self.pos < len(self.decisions):
            d = self.decisions[self.pos]
        else:
            rt = self.check_sat(cond)
            rf = self.check_sat(z3.Not(cond))
            can_t = rt != z3.unsat
            can_f = rf != z3.unsat
            if can_t and can_f:
                d = True
                self.new_paths.append(self.decisions[:self.pos] + [False])
            elif can_t:
                d = True
            elif can_f:
                d = False
            else:
                raise PathEnd()
            self.decisions.append(d)
        self.pos += 1
        self.assume(cond if d else z3.Not(cond))
        return d

    def choose(self, n, label=''):
        """n-way nondeterministic choice (0..n-1)"""
        for k in range(n - 1):
            if self.branch(self.fresh_bool('choice_%s_%d' % (label, k))):
                return k
        return n - 1

    # -- obligations ---------------------------------------------------------
    def prove(self, name, props, goal, info=None, soft=False):
        """generate and discharge one obligation; afterwards the goal is assumed.
        soft: the obligation exists because of the way the code is written (a write, a loop); it is discharged
        like any other but is not part of the lock file"""
        if soft:
            info = dict(info or {})
            info['soft'] = True
        if isinstance(props, str):
            props = [props]
        props = set(props)
        if self.task is not None and self.task.role in self.engine.carry and not soft:
            # the contract of a helper / scope-stack method is what its callers assume at the call site: every
            # property whose check runs such callers carries the callee's own obligations (modularity: a callee is
            # checked against the contract its callers use)
            props |= self.engine.carry[self.task.role]
        if self.task is not None and getattr(self.task, 'carried_by', None) and not soft:
            props |= self.task.carried_by
        if self.task is not None and 'C07' in props and self.task.role in self.engine.carry_c07[0]:
            props |= self.engine.carry_c07[1]
        if getattr(self, 'in_prologue', False):
            # the creator of a closure is verified by its own task; here it only builds the environment
            if not isinstance(goal, bool):
                self.assume(goal)
            return True
        if self.engine.props_filter is not None and not (props & self.engine.props_filter):
            # not part of this check (it is discharged by the check of its own property).  It is NOT assumed:
            # on a changed tree it may be false, and assuming it would silently kill this path together with
            # the obligations of the property under check
            return True
        t0 = time.time()
        if isinstance(goal, bool):
            status = 'proved' if goal else 'refuted'
            ob = Obligation(name, props, status, self.cur_func, self.path_id(), None, 0.0, info, static=True)
            if not goal:
                conds = self.engine.finding_conds.get(finding_key(name))
                if conds and all(L.is_true(L.simp(c(self))) for _, c in conds):
                    ob.status = 'known'
                    ob.info = dict(info or {})
                    ob.info['known_findings'] = [fid for fid, _ in conds]
            self.obligations.append(ob)
            return goal
        goal_s = L.simp(goal)
        if L.is_true(goal_s):
            ob = Obligation(name, props, 'proved', self.cur_func, self.path_id(), None, 0.0, info)
            self.obligations.append(ob)
            return True
        self.solver.push()
        self.solver.add(z3.Not(goal_s))
        r = self.solver.check()
        model = None
        matched = None
        if r == z3.sat:
            status = 'refuted'
            model = self.summarise_model(self.solver.model(), info)
            # known findings: is every counterexample covered by the recorded failing branches?
            conds = self.engine.finding_conds.get(finding_key(name))
            if conds:
                fs = [(fid, c(self)) for fid, c in conds]
                cover = L.simp(z3.Or([f for _, f in fs]))
                if L.is_true(cover):
                    r2 = z3.unsat         # the recorded branch is the whole clause
                elif L.is_false(cover):
                    r2 = z3.sat
                else:
                    self.solver.add(z3.Not(cover))
                    r2 = self.solver.check()
                if r2 == z3.unsat:
                    status = 'known'
                    matched = [fid for fid, _ in fs]
                elif r2 == z3.sat:
                    model = self.summarise_model(self.solver.model(), info)
                    model['outside_known_findings'] = True
                else:
                    status = 'unknown'
        elif r == z3.unsat:
            status = 'proved'
        else:
            status = 'unknown'
        self.solver.pop()
        ob = Obligation(name, props, status, self.cur_func, self.path_id(), model, time.time() - t0, info)
        if matched:
            ob.info = dict(info or {})
            ob.info['known_findings'] = matched
        if status not in ('proved', 'known'):
            ob.info = dict(ob.info or info or {})
            ob.info['smt2'] = self.engine.dump_smt(self, goal_s) if self.engine.keep_smt else None
        self.obligations.append(ob)
        if self.engine.smt_sink is not None:
            self.engine.smt_sink(self, ob, goal_s)
        self.assume(goal_s)
        return status == 'proved'

    def _unused(self):
        pass

    def path_id(self):
        return ''.join('T' if d else 'F' for d in self.decisions[:self.pos])

    def summarise_model(self, model, info):
        out = {}
        watch = dict(self.task.watch or {})
        if info and 'watch' in info:
            watch.update(info['watch'])
        for k, e in watch.items():
            try:
                out[k] = str(model.eval(e, model_completion=True))
            except Exception as exc:   # pragma: no cover
                out[k] = '<%s>' % exc
        return out

    # -- allocation ----------------------------------------------------------
    def cur_next(self):
        return self.next_base + self.next_off

    def alloc(self):
        r = self.next_base + self.next_off
        self.next_off += 1
        return L.simp(r)

    def havoc_alloc(self):
        nb = self.fresh_int('next')
        self.assume(nb >= self.next_base + self.next_off)
        self.next_base = nb
        self.next_off = 0

    def is_fresh(self, ref):
        """allocated during this activation (by it or by its callees)"""
        return ref >= self.entry_next

    def same(self, a, b):
        """are the two terms equal on this path (syntactically, or provably under the path condition)"""
        if not isinstance(a, z3.ExprRef) or not isinstance(b, z3.ExprRef):
            return a is b
        if a.sort() != b.sort():
            return False
        a, b = L.simp(a), L.simp(b)
        if a.eq(b):
            return True
        return self.check_sat(a != b) == z3.unsat

    def small_int_axioms(self, i):
        """instances of: every int has >= 1 digit, |i| <= 9 has exactly one"""
        self.assume(L.int_digits(i) >= 1)
        self.assume(z3.Implies(z3.And(i >= -9, i <= 9), L.int_digits(i) == 1))
        self.assume(z3.Implies(z3.Or(i < -9, i > 9), L.int_digits(i) >= 2))

    def known(self, v):
        """well-formedness of a value obtained from the pre-state/heap/callee"""
        self.assume(L.refof(v) < self.cur_next())
        self.assume(z3.Implies(L.is_Str(v), L.slen(Val.s(v)) >= 0))
        return v

    # -- events ---------------------------------------------------------------
    def event(self, *ev):
        self.events.append(ev)
        for fam in self.families:
            fam.on_event(self, ev)

    # -- heap primitives -------------------------------------------------------
    def get_field(self, ref, name):
        return self.heap.fld(name, ref)

    def set_field(self, ref, name, value, fresh_obj=False):
        if not fresh_obj:
            self.event('field_write', ref, name, value)
        arr = self.heap.arr('F_' + name)
        self.heap.set('F_' + name, z3.Store(arr, ref, value))

    def new_list(self, length, elts_array=None, kind='list'):
        r = self.alloc()
        self.heap.set('LLEN', z3.Store(self.heap.arr('LLEN'), r, length))
        if elts_array is None:
            elts_array = z3.Const(self.fresh_name('elts'), z3.ArraySort(I, Val))
        self.heap.set('LELT', z3.Store(self.heap.arr('LELT'), r, elts_array))
        self.assume(L.node_owned(r) == z3.BoolVal(bool(getattr(self.task, 'builds_trees', False))))
        self.event('alloc', kind, r)
        return r

    def new_list_from(self, vals, kind='list'):
        arr = z3.K(I, L.NoneV)
        for k, v in enumerate(vals):
            arr = z3.Store(arr, k, v)
        return self.new_list(z3.IntVal(len(vals)), arr, kind)

    def new_dict_from(self, pairs):
        has = z3.K(Val, z3.BoolVal(False))
        val = z3.K(Val, L.NoneV)
        keys = z3.K(I, L.NoneV)
        for k, (kv, vv) in enumerate(pairs):
            has = z3.Store(has, kv, z3.BoolVal(True))
            val = z3.Store(val, kv, vv)
            keys = z3.Store(keys, k, kv)
        return self.new_dict(z3.IntVal(len(pairs)), has, val, keys)

    def new_dict(self, dlen=None, has=None, val=None, keys=None):
        r = self.alloc()
        if dlen is None:
            dlen = z3.IntVal(0)
            has = z3.K(Val, z3.BoolVal(False))
        if has is None:
            has = z3.Const(self.fresh_name('dhas'), z3.ArraySort(Val, B))
        if val is None:
            val = z3.Const(self.fresh_name('dval'), z3.ArraySort(Val, Val))
        if keys is None:
            keys = z3.Const(self.fresh_name('dkey'), z3.ArraySort(I, Val))
        self.heap.set('DLEN', z3.Store(self.heap.arr('DLEN'), r, dlen))
        self.heap.set('DHAS', z3.Store(self.heap.arr('DHAS'), r, has))
        self.heap.set('DVAL', z3.Store(self.heap.arr('DVAL'), r, val))
        self.heap.set('DKEY', z3.Store(self.heap.arr('DKEY'), r, keys))
        self.event('alloc', 'dict', r)
        return r

    def list_set_len(self, ref, n):
        self.heap.set('LLEN', z3.Store(self.heap.arr('LLEN'), ref, n))

    def list_set_elts(self, ref, arr):
        self.heap.set('LELT', z3.Store(self.heap.arr('LELT'), ref, arr))

    def list_write(self, kind, ref, new_len, new_elts, stored=()):
        """a length/content changing write to a list: generic families get to check it"""
        old_len = self.heap.llen(ref)
        self.event('write', 'list', kind, ref, old_len, new_len, tuple(stored))
        self.list_set_len(ref, new_len)
        self.list_set_elts(ref, new_elts)

    def dict_write(self, kind, ref, new_len, new_has, new_val, new_keys=None, stored=()):
        old_len = self.heap.dlen(ref)
        self.event('write', 'dict', kind, ref, old_len, new_len, tuple(stored))
        self.heap.set('DLEN', z3.Store(self.heap.arr('DLEN'), ref, new_len))
        self.heap.set('DHAS', z3.Store(self.heap.arr('DHAS'), ref, new_has))
        self.heap.set('DVAL', z3.Store(self.heap.arr('DVAL'), ref, new_val))
        if new_keys is None:
            new_keys = z3.Const(self.fresh_name('dkey'), z3.ArraySort(I, Val))
        self.heap.set('DKEY', z3.Store(self.heap.arr('DKEY'), ref, new_keys))

    def havoc(self, names):
        for n in names:
            sort = Heap.SORTS.get(n, z3.ArraySort(I, Val))
            self.heap.set(n, z3.Const(self.fresh_name(n), sort))

    def havoc_data(self, keep_protected=True):
        """callee may have changed any list/dict contents except protected (node-owned) lists"""
        old = self.heap.copy()
        self.havoc(DATA_ARRAYS)
        if keep_protected:
            for r in self.protected:
                self.assume(self.heap.llen(r) == old.llen(r))
                self.assume(self.heap.lelts(r) == old.lelts(r))
            for r in self.protected_dicts:
                self.assume(self.heap.dlen(r) == old.dlen(r))
                for a in ('DHAS', 'DVAL', 'DKEY'):
                    self.assume(z3.Select(self.heap.arr(a), r) == z3.Select(old.arr(a), r))
        return old

    def protect(self, ref):
        for r in self.protected:
            if r.eq(ref):
                return
        self.protected.append(ref)

    def unprotect(self, ref):
        self.protected = [r for r in self.protected if not r.eq(ref)]

    def protect_dict(self, ref):
        self.protected_dicts.append(ref)

    def unprotect_dict(self, ref):
        self.protected_dicts = [r for r in self.protected_dicts if not r.eq(ref)]

    # -- python-side knowledge ---------------------------------------------------
    def note_class(self, ref, cls, exact=False):
        ref = L.simp(ref)
        old = self.known_cls.get(ref.get_id())
        if old is not None and old[2] and not exact:
            return
        if old is not None and not exact and old[1] != cls:
            # keep the more specific one
            if cls in self.src.classes and old[1] in self.src.classes and old[1] in self.src.subclasses(cls):
                return
        self.known_cls[ref.get_id()] = (ref, cls, exact)

    def class_of(self, v):
        """class name known (python side) for an object value, or None"""
        if not isinstance(v, z3.ExprRef):
            return None
        v = L.simp(v)
        if v.sort() == Val:
            if z3.is_app(v) and v.decl().name() == 'ObjV':
                ref = v.arg(0)
            else:
                ref = L.simp(Val.oref(v))
        else:
            ref = v
        k = self.known_cls.get(ref.get_id())
        if k:
            return k[1]
        return self.class_from_solver(v, ref)

    def class_from_solver(self, v, ref):
        """the path condition may fix the class although the term is not one that was registered"""
        if v.sort() == Val and self.check_sat(z3.Not(L.is_Obj(v))) != z3.unsat:
            return None
        if self.check_sat() != z3.sat:
            return None
        sh = self.engine.shapes
        c = self.solver.model().eval(L.cls_of(ref), model_completion=True)
        if z3.is_int_value(c):
            for name, cid in sh.class_id.items():
                if cid == c.as_long():
                    if self.check_sat(L.cls_of(ref) != cid) == z3.unsat:
                        self.known_cls[ref.get_id()] = (ref, name, True)
                        return name
        if self.check_sat(z3.Not(sh.is_instance(ref, 'Op'))) == z3.unsat:
            self.known_cls[ref.get_id()] = (ref, 'Op', False)
            return 'Op'
        return None

    def assume_elem(self, v):
        """global element invariant: values held in containers / scopes are language values"""
        for fam in self.families:
            fam.assume_value(self, v)

    assume_scope_value = assume_elem

    def loop_var_havoced(self, name, old, new):
        self.loop_havocs.append((name, old, new))

    def note_array_elems(self, arr, origin):
        self.array_origin[arr.get_id()] = (arr, origin)

    def use_assumption(self, text):
        self.assumptions_used.add(text)

    def mark_unknown(self, v):
        self.unknown_vals.append(v)

    # -- strings ---------------------------------------------------------------
    def str_lit(self, s):
        if s not in self.str_lits:
            self.str_lits[s] = len(self.str_lits)
        k = self.str_lits[s]
        self.assume(L.slen(z3.IntVal(k)) == len(s))
        return L.StrV(k)

    def fresh_str(self, stem='str'):
        sid = self.fresh_int(stem)
        self.assume(L.slen(sid) >= 0)
        return L.StrV(sid)

    def lit_of(self, v):
        """python string if v is a string literal value, else None"""
        v = L.simp(v)
        if z3.is_app(v) and v.decl().name() == 'StrV':
            a = v.arg(0)
            if z3.is_int_value(a):
                k = a.as_long()
                for s, i in self.str_lits.items():
                    if i == k:
                        return s
        return None

    # -- truthiness / identity / equality ---------------------------------------
    def truthy(self, v, heap=None):
        if isinstance(v, (St, Closure, BoundMethod)):
            return z3.BoolVal(True)
        h = heap or self.heap
        return z3.If(L.is_Bool(v), Val.b(v),
               z3.If(L.is_None(v), z3.BoolVal(False),
               z3.If(L.is_Int(v), Val.i(v) != 0,
               z3.If(L.is_Str(v), L.slen(Val.s(v)) > 0,
               z3.If(L.is_List(v), h.llen(Val.lref(v)) > 0,
               z3.If(L.is_Tuple(v), h.llen(Val.tref(v)) > 0,
               z3.If(L.is_Dict(v), h.dlen(Val.dref(v)) > 0,
               z3.If(L.is_Dec(v), L.dec_nonzero(Val.d(v)),
               z3.If(L.is_Float(v), L.flt_nonzero(Val.fl(v)),
                     z3.BoolVal(True))))))))))

    def to_val(self, v):
        """convert an interpreter-level value into a Val term"""
        if isinstance(v, z3.ExprRef):
            return v
        if isinstance(v, LazyGen):
            return self.force(v)
        if isinstance(v, St):
            return self.engine.static_val(self, v)
        if isinstance(v, Closure):
            return L.FunV(v.fid)
        if isinstance(v, BoundMethod):
            return self.engine.model.bound_value(self, v)
        if isinstance(v, tuple):
            return L.TupleV(self.new_list_from([self.to_val(x) for x in v], 'tuple'))
        raise Unsupported('cannot convert %r to a value' % (v,))

    # -- raising ---------------------------------------------------------------
    def raise_(self, name, origin=''):
        self.event('raise', L.EXC_ID[name], origin)
        raise PyRaise(L.EXC_ID[name], origin)

    def may_raise(self, names, origin=''):
        """fork: the primitive raises one of `names` (or any subclass of a single base)"""
        if not names:
            return
        if self.branch(self.fresh_bool('raises'), 'raises'):
            if len(names) == 1 and len(L.exc_subclasses(names[0])) > 1:
                cls = self.fresh_int('exc')
                self.assume(L.exc_is_sub(cls, names[0]))
                self.event('raise', cls, origin)
                raise PyRaise(cls, origin)
            k = self.choose(len(names), 'exc')
            self.raise_(names[k], origin)

    # =========================================================================
    # statements
    # =========================================================================
    def exec_block(self, stmts, env):
        for st in stmts:
            self.exec_stmt(st, env)

    def exec_stmt(self, st, env):
        m = getattr(self, 'st_' + type(st).__name__, None)
        if m is None:
            raise Unsupported('statement %s' % type(st).__name__)
        return m(st, env)

    def st_Pass(self, st, env):
        pass

    def st_Expr(self, st, env):
        if isinstance(st.value, ast.Yield):
            v = self.eval(st.value.value, env) if st.value.value is not None else L.NoneV
            self.do_yield(v, env)
            return
        self.eval(st.value, env)

    def st_Return(self, st, env):
        v = self.eval(st.value, env) if st.value is not None else L.NoneV
        raise ReturnEx(v)

    def st_Assign(self, st, env):
        if len(st.targets) == 1 and isinstance(st.targets[0], (ast.Tuple, ast.List)) \
                and isinstance(st.value, (ast.Tuple, ast.List)) and len(st.value.elts) == len(st.targets[0].elts) \
                and not any(isinstance(e, ast.Starred) for e in list(st.value.elts) + list(st.targets[0].elts)):
            vals = [self.eval(e, env) for e in st.value.elts]      # right-hand side first, left to right
            for t, v in zip(st.targets[0].elts, vals):
                self.assign(t, v, env)
            return
        v = self.eval(st.value, env)
        for t in st.targets:
            self.assign(t, v, env)

    def st_AnnAssign(self, st, env):
        if st.value is not None:
            self.assign(st.target, self.eval(st.value, env), env)

    def st_AugAssign(self, st, env):
        # get - op - set, Python's in-place rule is inside py_binop(inplace=True)
        t = st.target
        opname = type(st.op).__name__
        if isinstance(t, ast.Name):
            cur = self.lookup(t.id, env)
            new = self.engine.model.binop(self, opname, cur, self.eval(st.value, env), inplace=True)
            self.assign(t, new, env)
        elif isinstance(t, ast.Attribute):
            obj = self.eval(t.value, env)
            cur = self.getattr_val(obj, t.attr)
            new = self.engine.model.binop(self, opname, cur, self.eval(st.value, env), inplace=True)
            self.setattr_val(obj, t.attr, new)
        elif isinstance(t, ast.Subscript):
            obj = self.eval(t.value, env)
            key = self.eval_subscript_key(t.slice, env)
            cur = self.engine.model.getitem(self, obj, key)
            new = self.engine.model.binop(self, opname, cur, self.eval(st.value, env), inplace=True)
            self.engine.model.setitem(self, obj, key, new)
        else:
            raise Unsupported('augassign target')

    def st_If(self, st, env):
        c = self.eval(st.test, env)
        if self.branch(self.truthy(c), 'if@%d' % st.lineno):
            self.exec_block(st.body, env)
        else:
            self.exec_block(st.orelse, env)

    def st_Raise(self, st, env):
        if st.exc is None:
            if not self.handling:
                self.raise_('RuntimeError', 'No active exception to reraise')
            e = self.handling[-1]
            self.event('raise', e.cls, 're-raise@%d' % st.lineno)
            raise PyRaise(e.cls, 're-raise@%d' % st.lineno)
        cls = self.eval_exception(st.exc, env)
        self.event('raise', cls, 'explicit@%d' % st.lineno)
        raise PyRaise(cls, 'explicit@%d' % st.lineno)

    def exc_class_id(self, target):
        name = EXC_ALIASES.get(target.name, target.name.split('.')[-1])
        if name in L.EXC_ID:
            return L.EXC_ID[name]
        # an exception class the hierarchy does not know: cannot be shown to be an Exception
        L.register_exception(name, 'BaseException')
        return L.EXC_ID[name]

    def eval_exception(self, node, env):
        if isinstance(node, ast.Call):
            target = self.eval(node.func, env)
            if isinstance(target, St) and target.kind in ('class', 'builtin', 'extclass') and \
                    not (target.kind == 'class' and self.src.find_method(target.name, '__init__')):
                for a in node.args:
                    self.eval(a, env)
                return self.exc_class_id(target)
            v = self.eval(node, env)          # a factory call, or a class with its own __init__
        else:
            v = self.eval(node, env)
        if isinstance(v, St) and v.kind in ('class', 'builtin', 'extclass'):
            return self.exc_class_id(v)
        if isinstance(v, z3.ExprRef):
            known = self.exc_instances.get(L.simp(v).get_id())
            if known is not None:
                return known
            # an exception object of unknown origin (stored earlier, handed in): any class at all
            cls = self.fresh_int('exc')
            self.assume(L.exc_is_sub(cls, 'BaseException'))
            return cls
        raise Unsupported('raise of %r' % (v,))

    def st_Try(self, st, env):
        def run_final():
            if st.finalbody:
                self.exec_block(st.finalbody, env)
        try:
            try:
                self.exec_block(st.body, env)
            except PyRaise as e:
                handled = False
                for h in st.handlers:
                    if self.exc_matches(e.cls, h.type, env):
                        handled = True
                        if h.name:
                            inst = L.OpaqueV(L.OK['instance'], self.fresh_int('excinst'))
                            env.vars[h.name] = inst
                            self.exc_instances[L.simp(inst).get_id()] = e.cls
                        self.handling.append(e)
                        try:
                            self.exec_block(h.body, env)
                        finally:
                            self.handling.pop()
                        break
                if not handled:
                    raise
            else:
                self.exec_block(st.orelse, env)
        except (PyRaise, ReturnEx, BreakEx, ContinueEx):
            run_final()
            raise
        run_final()

    def exc_matches(self, cls, type_node, env):
        if type_node is None:
            return True
        t = self.eval(type_node, env)
        names = []
        for x in (t if isinstance(t, tuple) else (t,)):
            if not isinstance(x, St):
                raise Unsupported('except with dynamic class')
            names.append(EXC_ALIASES.get(x.name, x.name.split('.')[-1]))
        conds = []
        for n in names:
            if n not in L.EXC_ID:
                L.register_exception(n, 'Exception')
            conds.append(L.exc_is_sub(cls, n))
        return self.branch(z3.Or(conds), 'except')

    def st_FunctionDef(self, st, env):
        fi = None
        for f in self.src.funcs.values():
            if f.node is st:
                fi = f
                break
        if fi is None:
            raise Unsupported('nested def not indexed')
        env.vars[st.name] = self.make_closure(fi, env)

    def make_closure(self, fi, env):
        fid = self.fresh_int('closure')
        c = Closure(fi, env, fid)
        self.closures[fid.get_id()] = c
        self.event('closure', fi.key, fid)
        return c

    def st_Delete(self, st, env):
        for t in st.targets:
            if isinstance(t, ast.Subscript):
                obj = self.eval(t.value, env)
                key = self.eval_subscript_key(t.slice, env)
                self.engine.model.delitem(self, obj, key)
            else:
                raise Unsupported('del of non-subscript')

    def st_With(self, st, env):
        body = st.body
        for item in reversed(st.items[1:]):
            # `with a, b:` is `with a:` around `with b:`
            inner = ast.With(items=[item], body=body)
            ast.copy_location(inner, st)
            body = [inner]
        self.engine.model.with_stmt(self, st.items[0], body, env)

    def st_For(self, st, env):
        self.engine.loops.for_loop(self, st, env)

    def st_Assert(self, st, env):
        c = self.eval(st.test, env)
        if not self.branch(self.truthy(c), 'assert@%d' % st.lineno):
            if st.msg is not None:
                self.eval(st.msg, env)
            self.raise_('AssertionError', 'assert@%d' % st.lineno)

    def st_Nonlocal(self, st, env):
        env.nonlocal_names.update(st.names)

    def st_While(self, st, env):
        self.engine.loops.while_loop(self, st, env)

    def st_Break(self, st, env):
        raise BreakEx()

    def st_Continue(self, st, env):
        raise ContinueEx()

    def st_Import(self, st, env):
        # an import executed while the function runs (C02 reports it); the name denotes the module
        for a in st.names:
            self.event('import_stmt', a.name)
            top = a.name if a.asname else a.name.split('.')[0]
            env.vars[a.asname or top] = self.engine.resolve_import(self, top) if '.' not in top else St('module', top)

    def st_ImportFrom(self, st, env):
        for a in st.names:
            self.event('import_stmt', (st.module or '') + '.' + a.name)
            env.vars[a.asname or a.name] = self.engine.resolve_import(self, (st.module or '') + '.' + a.name)

    def st_Global(self, st, env):
        # assigning a module global from a function (reported by the static frame scan of C11):
        # the names refer to a per-path cell of the module global, initially its unknown current value
        self.event('global_decl', tuple(st.names))
        env.global_names.update(st.names)

    def global_cell(self, module, name):
        """a module global some function rebinds is state carried between calls: unknown when first read on a path"""
        key = (module, name)
        if key not in self.global_cells:
            v = self.fresh_val('global_%s_%s' % key)
            self.known(v)
            self.global_cells[key] = v
        return self.global_cells[key]

    def do_yield(self, v, env):
        hook = getattr(self, 'yield_hook', None)
        if hook is None:
            self.event('yield', v)
            return
        hook(v)

    # -- assignment ---------------------------------------------------------------
    def assign(self, target, v, env):
        if isinstance(target, ast.Name):
            if env.declares_global(target.id):
                self.event('global_write', self.cur_module, target.id)
                self.global_cells[(self.cur_module, target.id)] = self.to_val(v)
                return
            e = env
            while e is not None and target.id not in e.nonlocal_names:
                e = e.parent
            if e is not None:
                # nonlocal: the binding of the nearest enclosing frame that has one
                o = e.parent
                while o is not None and target.id not in o.vars:
                    o = o.parent
                if o is None:
                    raise Unsupported('nonlocal %s without an enclosing binding' % target.id)
                o.vars[target.id] = v
                return
            env.vars[target.id] = v
            return
        if isinstance(target, ast.Attribute):
            obj = self.eval(target.value, env)
            self.setattr_val(obj, target.attr, self.to_val(v))
            return
        if isinstance(target, ast.Subscript):
            obj = self.eval(target.value, env)
            key = self.eval_subscript_key(target.slice, env)
            self.engine.model.setitem(self, obj, key, self.to_val(v))
            return
        if isinstance(target, (ast.Tuple, ast.List)) and any(isinstance(t, ast.Starred) for t in target.elts):
            stars = [k for k, t in enumerate(target.elts) if isinstance(t, ast.Starred)]
            if len(stars) != 1:
                raise Unsupported('two starred targets')
            pre, post = stars[0], len(target.elts) - stars[0] - 1
            m = self.engine.model
            if isinstance(v, tuple):
                if len(v) < pre + post:
                    self.raise_('ValueError', 'not enough values to unpack')
                mid = L.ListV(self.new_list_from([self.to_val(x) for x in v[pre:len(v) - post]]))
                vals = list(v[:pre]) + [mid] + list(v[len(v) - post:])
            else:
                v = self.to_val(v)
                if not self.branch(z3.Or(L.is_List(v), L.is_Tuple(v)), 'unpack-seq'):
                    self.may_raise(['Exception'], 'unpack of non-sequence')
                    raise Unsupported('starred unpacking of a non-sequence')
                n = m.seq_len(self, v)
                if not self.branch(n >= pre + post, 'unpack-enough'):
                    self.raise_('ValueError', 'not enough values to unpack')
                r = m.seq_ref_b(self, v)
                nc = L.simp(n)
                if z3.is_int_value(nc) and nc.as_long() <= 16:
                    # a sequence of known small length: the starred part is the list of exactly those elements
                    mid = L.ListV(self.new_list_from([m.seq_get(self, v, z3.IntVal(pre + k)) for k in range(nc.as_long() - pre - post)]))
                else:
                    arr = z3.Const(self.fresh_name('starred'), z3.ArraySort(I, Val))
                    J = z3.Int('K_view')
                    self.assume(z3.Select(arr, J) == self.heap.lelt(r, J + pre))
                    self.note_array_elems(arr, ('from', r))
                    mid = L.ListV(self.new_list(n - pre - post, arr))
                vals = [m.seq_get(self, v, z3.IntVal(k)) for k in range(pre)] + [mid] + \
                       [m.seq_get(self, v, n - post + k) for k in range(post)]
            for t, x in zip(target.elts, vals):
                self.assign(t.value if isinstance(t, ast.Starred) else t, x, env)
            return
        if isinstance(target, (ast.Tuple, ast.List)):
            vals = self.engine.model.unpack(self, v, len(target.elts))
            for t, x in zip(target.elts, vals):
                self.assign(t, x, env)
            return
        raise Unsupported('assignment target %s' % type(target).__name__)

    # =========================================================================
    # expressions
    # =========================================================================
    def eval(self, node, env):
        m = getattr(self, 'ex_' + type(node).__name__, None)
        if m is None:
            raise Unsupported('expression %s' % type(node).__name__)
        return m(node, env)

    def ex_Constant(self, node, env):
        v = node.value
        if v is None:
            return L.NoneV
        if v is True:
            return L.TrueV
        if v is False:
            return L.FalseV
        if v is Ellipsis:
            return L.EllipsisV
        if isinstance(v, int):
            return L.IntV(v)
        if isinstance(v, str):
            self.fstring_literals.append(v)
            return self.str_lit(v)
        if isinstance(v, float):
            return self.engine.float_lit(self, v)
        raise Unsupported('constant %r' % (v,))

    def lookup(self, name, env):
        if env.declares_global(name) or (not env.has(name)
                                         and name in self.engine.src.mutable_globals.get(self.cur_module, ())):
            return self.global_cell(self.cur_module, name)
        if env.has(name):
            return env.lookup(name)
        return self.engine.resolve_global(self, self.cur_module, name)

    def ex_Name(self, node, env):
        return self.lookup(node.id, env)

    def ex_Attribute(self, node, env):
        obj = self.eval(node.value, env)
        return self.getattr_val(obj, node.attr)

    def getattr_val(self, obj, attr):
        if isinstance(obj, St):
            return self.engine.static_attr(self, obj, attr)
        if isinstance(obj, SuperProxy):
            return BoundMethod(obj, attr)
        if isinstance(obj, BoundMethod):
            obj = self.to_val(obj)        # the attribute used as a value (AttributeError if the type has none)
        if isinstance(obj, z3.ExprRef):
            return self.engine.model.getattr(self, obj, attr)
        raise Unsupported('attribute %s of %r' % (attr, obj))

    def setattr_val(self, obj, attr, v):
        if not isinstance(obj, z3.ExprRef):
            raise Unsupported('setattr on static')
        self.engine.model.setattr(self, obj, attr, v)

    def eval_subscript_key(self, sl, env):
        if isinstance(sl, ast.Slice):
            lo = self.eval(sl.lower, env) if sl.lower is not None else L.NoneV
            hi = self.eval(sl.upper, env) if sl.upper is not None else L.NoneV
            stp = self.eval(sl.step, env) if sl.step is not None else L.NoneV
            return self.engine.model.make_slice(self, lo, hi, stp)
        return self.eval(sl, env)

    def ex_Subscript(self, node, env):
        obj = self.eval(node.value, env)
        key = self.eval_subscript_key(node.slice, env)
        return self.engine.model.getitem(self, obj, key)

    def ex_UnaryOp(self, node, env):
        v = self.eval(node.operand, env)
        if isinstance(node.op, ast.Not):
            return L.BoolV(z3.Not(self.truthy(v)))
        if isinstance(node.op, ast.USub):
            return self.engine.model.unary_neg(self, v)
        if isinstance(node.op, ast.UAdd):
            return self.engine.model.unary_pos(self, v)
        return self.engine.model.unary_invert(self, v)

    def ex_BoolOp(self, node, env):
        # short circuit, value of the deciding operand
        is_and = isinstance(node.op, ast.And)
        v = None
        for k, e in enumerate(node.values):
            v = self.eval(e, env)
            if k == len(node.values) - 1:
                return v
            t = self.branch(self.truthy(self.to_val(v)) if not isinstance(v, (St, Closure)) else True, 'boolop')
            if is_and and not t:
                return v
            if (not is_and) and t:
                return v
        return v

    def ex_BinOp(self, node, env):
        a = self.eval(node.left, env)
        b = self.eval(node.right, env)
        return self.engine.model.binop(self, type(node.op).__name__, a, b, inplace=False)

    def ex_Compare(self, node, env):
        left = self.eval(node.left, env)
        result = None
        for k, (op, rn) in enumerate(zip(node.ops, node.comparators)):
            right = self.eval(rn, env)
            r = self.engine.model.compare(self, type(op).__name__, left, right)
            if k == len(node.ops) - 1:
                return r
            if not self.branch(self.truthy(r), 'cmpchain'):
                return r
            left = right
        return result

    def ex_IfExp(self, node, env):
        c = self.eval(node.test, env)
        if self.branch(self.truthy(self.to_val(c)), 'ifexp@%d' % node.lineno):
            return self.eval(node.body, env)
        return self.eval(node.orelse, env)

    def ex_JoinedStr(self, node, env):
        vals = []
        for part in node.values:
            if isinstance(part, ast.FormattedValue):
                v = self.eval(part.value, env)
                if isinstance(v, z3.ExprRef):
                    self.formatted.append(L.simp(v))
                self.engine.model.format_value(self, v)
                vals.append(self.to_val(v))
            elif isinstance(part, ast.Constant) and isinstance(part.value, str):
                self.fstring_literals.append(part.value)
        # an opaque string term fmt_<position>(embedded values): same values, same text
        f = L.UF('fmt_%d_%d_%d' % (node.lineno, node.col_offset, len(vals)), *([Val] * len(vals) + [I]))
        sid = f(*vals) if vals else z3.Int('fmtconst_%d_%d' % (node.lineno, node.col_offset))
        self.assume(L.slen(sid) >= 0)
        return L.StrV(sid)

    def ex_Lambda(self, node, env):
        fi = None
        for f in self.src.funcs.values():
            if f.node is node:
                fi = f
                break
        if fi is None:
            fi = self.engine.index_lambda(self, node)
        return self.make_closure(fi, env)

    def ex_Tuple(self, node, env):
        vals = [self.eval(e, env) for e in node.elts]
        if any(isinstance(v, (St, tuple)) for v in vals):
            return tuple(vals)
        return L.TupleV(self.new_list_from([self.to_val(v) for v in vals], 'tuple'))

    def ex_List(self, node, env):
        return self.engine.model.list_display(self, node, env)

    def ex_Dict(self, node, env):
        return self.engine.model.dict_display(self, node, env)

    def ex_ListComp(self, node, env):
        return self.engine.loops.list_comp(self, node, env)

    def ex_NamedExpr(self, node, env):
        v = self.eval(node.value, env)
        self.assign(node.target, v, env)
        return v

    def ex_Set(self, node, env):
        # a display of distinct constants, as used on the right of `in`: membership and iteration are those of the tuple
        if not all(isinstance(e, ast.Constant) for e in node.elts) or \
                len({(type(e.value).__name__, e.value) for e in node.elts}) != len(node.elts):
            raise Unsupported('set display of non-constants')
        self.event('set_display', len(node.elts))
        return tuple(self.eval(e, env) for e in node.elts)

    def ex_GeneratorExp(self, node, env):
        from .loops import has_effects
        gens = node.generators
        if not has_effects([node.elt] + [c for g in gens for c in g.ifs] + [g.iter for g in gens[1:]]):
            # nothing observable happens when the elements are produced: when they are produced does not matter
            lc = ast.ListComp(elt=node.elt, generators=gens)
            ast.copy_location(lc, node)
            return self.engine.loops.list_comp(self, lc, env)
        # Python evaluates the outermost iterable at once and everything else on consumption
        genv = Env(env)
        genv.vars['.0'] = self.eval(gens[0].iter, env)
        first = ast.comprehension(target=gens[0].target, iter=ast.Name(id='.0', ctx=ast.Load()), ifs=gens[0].ifs, is_async=0)
        lc = ast.ListComp(elt=node.elt, generators=[first] + list(gens[1:]))
        ast.copy_location(lc, node)
        ast.fix_missing_locations(lc)
        self.event('lazy_generator', node.lineno)
        return LazyGen(lc, genv)

    def force(self, v):
        """consume a lazy generator where Python would: its elements are produced now, once"""
        if isinstance(v, LazyGen):
            if v.consumed:
                return L.ListV(self.new_list(z3.IntVal(0), z3.K(I, L.NoneV)))
            v.consumed = True
            return self.engine.loops.list_comp(self, v.comp, v.env)
        return v

    def ex_DictComp(self, node, env):
        return self.engine.loops.dict_comp(self, node, env)

    def ex_Starred(self, node, env):
        raise Unsupported('starred outside call/display')

    def ex_Call(self, node, env):
        return self.engine.calls.call(self, node, env)

    def ex_Yield(self, node, env):
        raise Unsupported('yield as expression')
