"""Independent LR(0) automaton + LALR(1) look-ahead construction (DESIGN 6.2), written from the
textbook algorithm (kernel items, spontaneous/propagated look-aheads), not from PLY's generator."""
from collections import deque

END = '$end'
DUMMY = '#'


class Grammar:
    def __init__(self, prods, start):
        """prods: [(lhs, (rhs...))] in source order; production 0 is the augmented one"""
        self.prods = [("S'", (start,))] + list(prods)
        self.nonterminals = {p[0] for p in self.prods}
        self.terminals = {s for p in self.prods for s in p[1] if s not in self.nonterminals} | {END}
        self.by_lhs = {}
        for i, (lhs, rhs) in enumerate(self.prods):
            self.by_lhs.setdefault(lhs, []).append(i)
        self._nullable()
        self._first()

    def _nullable(self):
        self.nullable = set()
        changed = True
        while changed:
            changed = False
            for lhs, rhs in self.prods:
                if lhs not in self.nullable and all(s in self.nullable for s in rhs):
                    self.nullable.add(lhs)
                    changed = True

    def _first(self):
        self.first = {t: {t} for t in self.terminals}
        self.first[DUMMY] = {DUMMY}
        for n in self.nonterminals:
            self.first[n] = set()
        changed = True
        while changed:
            changed = False
            for lhs, rhs in self.prods:
                for s in rhs:
                    before = len(self.first[lhs])
                    self.first[lhs] |= self.first[s]
                    if len(self.first[lhs]) != before:
                        changed = True
                    if s not in self.nullable:
                        break

    def first_of_seq(self, seq):
        out = set()
        for s in seq:
            out |= self.first[s]
            if s not in self.nullable:
                return out, False
        return out, True


class LALR:
    def __init__(self, grammar):
        self.g = grammar
        self.build_lr0()
        self.build_lookaheads()
        self.build_reductions()

    # -- LR(0) ---------------------------------------------------------------------------
    def closure0(self, kernel):
        items = list(kernel)
        seen = set(items)
        q = deque(items)
        while q:
            p, d = q.popleft()
            rhs = self.g.prods[p][1]
            if d < len(rhs) and rhs[d] in self.g.nonterminals:
                for pi in self.g.by_lhs[rhs[d]]:
                    it = (pi, 0)
                    if it not in seen:
                        seen.add(it)
                        items.append(it)
                        q.append(it)
        return items

    def build_lr0(self):
        start = frozenset([(0, 0)])
        self.kernels = [start]
        self.index = {start: 0}
        self.closures = []
        self.trans = []          # state -> {symbol: state}
        q = deque([0])
        while q:
            s = q.popleft()
            while len(self.closures) <= s:
                self.closures.append(None)
                self.trans.append({})
            items = self.closure0(self.kernels[s])
            self.closures[s] = items
            moves = {}
            for p, d in items:
                rhs = self.g.prods[p][1]
                if d < len(rhs):
                    moves.setdefault(rhs[d], []).append((p, d + 1))
            for X, ker in moves.items():
                k = frozenset(ker)
                if k not in self.index:
                    self.index[k] = len(self.kernels)
                    self.kernels.append(k)
                    q.append(self.index[k])
                self.trans[s][X] = self.index[k]
        while len(self.closures) < len(self.kernels):
            self.closures.append(None)
            self.trans.append({})

    # -- LR(1) closure of a set of items with look-ahead sets ------------------------------------
    def closure1(self, seed):
        """seed: {(p, d): set(lookaheads)} -> full closure with look-aheads"""
        la = {k: set(v) for k, v in seed.items()}
        q = deque(la.keys())
        while q:
            p, d = q.popleft()
            rhs = self.g.prods[p][1]
            if d < len(rhs) and rhs[d] in self.g.nonterminals:
                beta = rhs[d + 1:]
                fs, nullable = self.g.first_of_seq(beta)
                new_las = set(fs)
                if nullable:
                    new_las |= la[(p, d)]
                for pi in self.g.by_lhs[rhs[d]]:
                    it = (pi, 0)
                    cur = la.setdefault(it, set())
                    if not new_las <= cur:
                        cur |= new_las
                        q.append(it)
        return la

    def build_lookaheads(self):
        n = len(self.kernels)
        self.la = [dict((k, set()) for k in self.kernels[s]) for s in range(n)]
        self.la[0][(0, 0)].add(END)
        prop = {}       # (state, item) -> [(state, item)]
        for s in range(n):
            for k in self.kernels[s]:
                J = self.closure1({k: {DUMMY}})
                for (p, d), las in J.items():
                    rhs = self.g.prods[p][1]
                    if d < len(rhs):
                        X = rhs[d]
                        t = self.trans[s][X]
                        target = (p, d + 1)
                        for a in las:
                            if a == DUMMY:
                                prop.setdefault((s, k), []).append((t, target))
                            else:
                                self.la[t][target].add(a)
        changed = True
        while changed:
            changed = False
            for (s, k), targets in prop.items():
                src = self.la[s][k]
                for t, it in targets:
                    dst = self.la[t][it]
                    if not src <= dst:
                        dst |= src
                        changed = True

    def build_reductions(self):
        """state -> {terminal: [production numbers that may be reduced]} and shifts"""
        self.reduces = []
        self.full_la = []
        for s in range(len(self.kernels)):
            J = self.closure1({k: set(v) for k, v in self.la[s].items()})
            self.full_la.append(J)
            red = {}
            for (p, d), las in J.items():
                if d == len(self.g.prods[p][1]):
                    for a in las:
                        red.setdefault(a, []).append(p)
            self.reduces.append(red)

    def shifts(self, s):
        return {X: t for X, t in self.trans[s].items() if X in self.g.terminals}

    def gotos(self, s):
        return {X: t for X, t in self.trans[s].items() if X in self.g.nonterminals}

    # -- witness sentences -------------------------------------------------------------------
    def shortest_expansions(self):
        """shortest terminal string of every nonterminal"""
        best = {t: (t,) for t in self.g.terminals}
        avoid = {'FOR', 'WHILE', 'BREAK', 'CONTINUE', 'DEF', 'RAISE', 'ELIF', 'COMMENT'}

        def cost(seq):
            return sum(50 if t in avoid else 1 for t in seq)
        changed = True
        while changed:
            changed = False
            for lhs, rhs in self.g.prods:
                if all(s in best for s in rhs):
                    cand = tuple(x for s in rhs for x in best[s])
                    if lhs not in best or cost(cand) < cost(best[lhs]):
                        best[lhs] = cand
                        changed = True
        return best

    def path_to(self, state):
        """shortest symbol path from state 0 to `state`"""
        prev = {0: None}
        q = deque([0])
        while q:
            s = q.popleft()
            if s == state:
                break
            for X, t in sorted(self.trans[s].items()):
                if t not in prev:
                    prev[t] = (s, X)
                    q.append(t)
        if state not in prev:
            return None
        syms = []
        s = state
        while prev[s] is not None:
            s, X = prev[s]
            syms.append(X)
        return list(reversed(syms))
