"""The trusted model of Python primitives (DESIGN 2.6): operators, subscripts, attributes,
displays, the with-protocol.  Builtin / external function stubs are in stubs.py.

Every stub states: result tag(s), result in terms of model functions, write effects on
arguments, raised classes, and the abstract attributes the properties need."""
import ast
import z3

from . import logic as L
from .logic import Val, I, B
from .symex import (Env, St, Closure, BoundMethod, SuperProxy, PyRaise, ReturnEx, PathEnd, Unsupported)
from .calls import Pack


def ite_int(c, a, b):
    return z3.If(c, a, b)


_K = z3.Int('K_view')


def def_array(ex, fn, at=()):
    """an array defined pointwise by fn, kept quantifier- and lambda-free: a fresh array constant whose
    definition is instantiated at the skolem index K_view (where every view comparison is made) and at the
    given extra indices.  Weaker than the lambda (sound); complete for the element-wise specs, which are all
    stated at K_view"""
    arr = z3.Const(ex.fresh_name('arr'), z3.ArraySort(I, Val))
    for i in (_K,) + tuple(at):
        ex.assume(z3.Select(arr, i) == fn(i))
    return arr


def shifted_insert(ex, elts, pos, v):
    return def_array(ex, lambda j: z3.If(j < pos, z3.Select(elts, j), z3.If(j == pos, v, z3.Select(elts, j - 1))), at=(pos,))


def shifted_delete(ex, elts, pos):
    return def_array(ex, lambda j: z3.If(j < pos, z3.Select(elts, j), z3.Select(elts, j + 1)))


def concat_arrays(ex, a, na, b):
    return def_array(ex, lambda j: z3.If(j < na, z3.Select(a, j), z3.Select(b, j - na)), at=(z3.IntVal(0), na))


class PyModel:
    def __init__(self, engine):
        self.engine = engine
        self.src = engine.src
        from .stubs import Stubs
        self.stubs = Stubs(engine, self)

    # ------------------------------------------------------------------ helpers
    def v(self, ex, x):
        return ex.to_val(x)

    def num_value_int(self, v):
        """integer value of an Int/Bool"""
        return z3.If(L.is_Bool(v), z3.If(Val.b(v), 1, 0), Val.i(v))

    def num_int(self, ex, v):
        i = self.num_value_int(v)
        ex.small_int_axioms(i)
        return i

    def index_like(self, v):
        return z3.Or(L.is_Int(v), L.is_Bool(v))

    def seq_ref(self, v):
        return z3.If(L.is_List(v), Val.lref(v), Val.tref(v))

    def seq_ref_b(self, ex, v):
        """reference of a list/tuple value as a plain term (decides the tag on this path)"""
        if ex.branch(L.is_List(v), 'seq-is-list'):
            return L.simp(Val.lref(v))
        return L.simp(Val.tref(v))

    def seq_len(self, ex, v):
        v = ex.to_val(v)
        if ex.branch(z3.Or(L.is_List(v), L.is_Tuple(v)), 'seq'):
            n = ex.heap.llen(self.seq_ref_b(ex, v))
            ex.assume(n >= 0)
            return n
        raise Unsupported('*pack of a non-sequence')

    def seq_get(self, ex, v, i):
        v = ex.to_val(v)
        r = self.seq_ref_b(ex, v)
        x = ex.known(ex.heap.lelt(r, i))
        ty = self.engine.shapes.elem_ty(ex, r)
        if ty is not None:
            self.engine.shapes.assume(ex, x, ty)
        else:
            ex.assume_elem(x)
        return x

    def as_tuple(self, ex, v):
        v = ex.to_val(v)
        if ex.branch(L.is_Tuple(v), 'pack-is-tuple'):
            return v
        r = self.seq_ref_b(ex, v)
        return L.TupleV(ex.new_list(ex.heap.llen(r), ex.heap.lelts(r), 'tuple'))

    def seq_tail_tuple(self, ex, rest, seq, idx):
        seq = ex.to_val(seq)
        r = self.seq_ref_b(ex, seq)
        n = ex.heap.llen(r)
        k = len(rest)
        j = z3.Int('j!tail')
        base = z3.K(I, L.NoneV)
        for p, x in enumerate(rest):
            base = z3.Store(base, p, ex.to_val(x))
        arr = def_array(ex, lambda j: z3.If(j < k, z3.Select(base, j), z3.Select(ex.heap.lelts(r), j - k + idx)), at=(z3.IntVal(0), z3.IntVal(1)))
        return L.TupleV(ex.new_list(n - idx + k, arr, 'tuple'))

    def unpack(self, ex, v, n):
        if isinstance(v, tuple):
            if len(v) != n:
                ex.raise_('ValueError', 'unpack')
            return list(v)
        v = ex.to_val(v)
        if ex.branch(z3.Or(L.is_Tuple(v), L.is_List(v)), 'unpack-seq'):
            r = self.seq_ref_b(ex, v)
            if not ex.branch(ex.heap.llen(r) == n, 'unpack-len'):
                ex.raise_('ValueError', 'unpack')
            out = []
            for k in range(n):
                out.append(self.seq_get(ex, v, z3.IntVal(k)))
            return out
        ex.may_raise(['Exception'], 'unpack of non-sequence')
        return [ex.known(ex.fresh_val('unp')) for _ in range(n)]

    # ------------------------------------------------------------------ attributes
    def getattr(self, ex, obj, attr):
        if ex.branch(L.is_Obj(obj), 'attr-on-obj'):
            ref = L.simp(Val.oref(obj))
            cls = ex.class_of(obj)
            if cls is None:
                return self.stubs.unknown_call(ex, 'attribute %s of an object of unknown class' % attr, [obj])
            if cls in self.src.classes and self.src.find_method(cls, attr) is not None:
                return BoundMethod(obj, attr)
            if cls not in self.src.classes and hasattr(self.stubs, 'e_%s_%s' % (cls, attr)):
                return BoundMethod(obj, attr)
            v = ex.known(ex.get_field(ref, attr))
            # the pre-state is closed: a field that has not been written since entry, of an object that existed at
            # entry, refers to something that existed at entry (never to what this activation allocated meanwhile)
            fa = L.simp(ex.heap.arr('F_' + attr))
            if fa.eq(ex.base_array('F_' + attr)):
                ex.assume(z3.Implies(ref < ex.entry_next, L.refof(v) < ex.entry_next))
            ty = self.engine.shapes.field_ty(cls, attr)
            declared = cls not in self.src.classes or any((c, attr) in self.engine.shapes_fields() for c in self.src.mro(cls))
            if not declared:
                # not a declared field of the (static) class: a subclass may have it, else AttributeError
                ex.event('undeclared_field_read', cls, attr)
                ex.may_raise(['AttributeError'], 'no attribute %s' % attr)
            self.engine.shapes.assume(ex, v, ty)
            ex.event('field_read', ref, attr, v)
            return v
        return BoundMethod(obj, attr)

    def bound_value(self, ex, bm):
        """an attribute of a non-object value used as a value (not called): AttributeError unless the
        Python type of the receiver has that attribute"""
        import decimal
        recv = bm.recv
        if not isinstance(recv, z3.ExprRef):
            return L.OpaqueV(L.OK['boundmethod'], ex.fresh_int('bm'))
        table = [(L.is_None(recv), type(None)), (L.is_Bool(recv), bool), (L.is_Int(recv), int), (L.is_Float(recv), float),
                 (L.is_Dec(recv), decimal.Decimal), (L.is_Str(recv), str), (L.is_List(recv), list), (L.is_Dict(recv), dict),
                 (L.is_Tuple(recv), tuple), (L.is_Slice(recv), slice), (L.is_Ellipsis(recv), type(Ellipsis))]
        for cond, pytype in table:
            if ex.branch(cond, 'attr-recv-%s' % pytype.__name__):
                if not hasattr(pytype, bm.name):
                    ex.raise_('AttributeError', '%s object has no attribute %s' % (pytype.__name__, bm.name))
                return L.OpaqueV(L.OK['boundmethod'], ex.fresh_int('bm'))
        return self.stubs.unknown_call(ex, 'attribute %s of a host object' % bm.name, [recv])

    def setattr(self, ex, obj, attr, v):
        if not ex.branch(L.is_Obj(obj), 'setattr-on-obj'):
            ex.raise_('AttributeError', 'setattr on non-object')
        ref = L.simp(Val.oref(obj))
        ex.set_field(ref, attr, v)

    # ------------------------------------------------------------------ displays
    def list_display(self, ex, node, env):
        parts = []     # ('v', val) | ('seq', val)
        for e in node.elts:
            if isinstance(e, ast.Starred):
                parts.append(('seq', ex.to_val(ex.eval(e.value, env))))
            else:
                parts.append(('v', ex.to_val(ex.eval(e, env))))
        if all(k == 'v' for k, _ in parts):
            return L.ListV(ex.new_list_from([v for _, v in parts]))
        # general case: concatenate
        n = z3.IntVal(0)
        arr = z3.K(I, L.NoneV)
        for k, v in parts:
            if k == 'v':
                arr = z3.Store(arr, n, v)
                n = n + 1
            else:
                m, src = self.iter_snapshot(ex, v)
                arr = concat_arrays(ex, arr, n, src)
                n = n + m
        r = ex.new_list(L.simp(n), arr)
        ex.event('write', 'list', 'display<%s>' % ex.last_snapshot_kind, r, z3.IntVal(0), ex.heap.llen(r), ())
        return L.ListV(r)

    def iter_snapshot(self, ex, v):
        """(length, elements array) of iterating v once now (list/tuple/str/dict/opaque iterator)"""
        if ex.branch(z3.Or(L.is_List(v), L.is_Tuple(v)), 'snap-seq'):
            r = self.seq_ref_b(ex, v)
            n = ex.heap.llen(r)
            from .families import CAP
            # TSI-6 is a heap invariant of every container that existed before this activation;
            # containers allocated by it are checked where they escape
            ex.assume(z3.And(n >= 0, z3.Or(ex.is_fresh(r), n <= CAP)))
            ex.event('iter_read', r)
            ex.last_snapshot_kind = 'seq'
            return n, ex.heap.lelts(r)
        if ex.branch(L.is_Str(v), 'snap-str'):
            n = L.slen(Val.s(v))
            arr = z3.Const(ex.fresh_name('chars'), z3.ArraySort(I, Val))
            ex.note_array_elems(arr, 'str1')
            ex.last_snapshot_kind = 'str'
            return n, arr
        if ex.branch(L.is_Dict(v), 'snap-dict'):
            r = L.simp(Val.dref(v))
            n = ex.heap.dlen(r)
            from .families import CAP
            ex.assume(z3.And(n >= 0, z3.Or(ex.is_fresh(r), n <= CAP)))
            ex.last_snapshot_kind = 'dict'
            return n, ex.heap.arr('DKEY')[r]
        if ex.branch(L.is_Opaque(v), 'snap-opaque'):
            d = ex.iter_descs.get(L.simp(v).get_id())
            ex.last_snapshot_kind = 'iterator'
            if d is not None and hasattr(d, 'snap'):
                return d.snap(ex)
            if d is not None and d.kind in ('zip', 'enumerate'):
                parts = d.parts if d.kind == 'zip' else [getattr(d, 'inner', None)]
                if all(p is not None and p.kind in ('seq', 'str', 'dictkeys', 'dictvalues', 'dictitems', 'range', 'reversed', 'pytuple') for p in parts):
                    # tuples of elements of containers that hold plain data
                    n = ex.fresh_int('itlen')
                    ex.assume(n >= 0)
                    for p in parts:
                        if p.kind == 'seq':
                            ex.assume(n <= ex.heap.llen(p.ref))
                    arr = z3.Const(ex.fresh_name('tuples'), z3.ArraySort(I, Val))
                    ex.note_array_elems(arr, 'pairs')
                    return n, arr
            n = ex.fresh_int('itlen')
            ex.assume(n >= 0)
            arr = z3.Const(ex.fresh_name('items'), z3.ArraySort(I, Val))
            ex.event('unknown_iter', v)
            ex.note_array_elems(arr, 'unknown')
            return n, arr
        ex.raise_('TypeError', 'not iterable')

    def dict_display(self, ex, node, env):
        pairs = []
        only_unpack = None
        for k, v in zip(node.keys, node.values):
            if k is None:
                src = ex.to_val(ex.eval(v, env))
                pairs.append(('unpack', src))
            else:
                kv = ex.to_val(ex.eval(k, env))
                vv = ex.to_val(ex.eval(v, env))
                pairs.append(('kv', kv, vv))
        r = ex.new_dict()
        first = True
        for p in pairs:
            if p[0] == 'unpack':
                src = p[1]
                if ex.branch(L.is_Opaque(src), 'unpack-opaque-mapping'):
                    # an object the model knows nothing about (e.g. a module-level table built at import time):
                    # the result holds whatever it held
                    ex.event('unknown_call', '** of an unknown mapping', (src,))
                    ex.dict_write('merge-unknown', r, ex.fresh_int('len'),
                                  z3.Const(ex.fresh_name('dhas'), z3.ArraySort(Val, B)),
                                  z3.Const(ex.fresh_name('dval'), z3.ArraySort(Val, Val)), None)
                    first = False
                    continue
                if not ex.branch(L.is_Dict(src), 'unpack-dict'):
                    ex.raise_('TypeError', '** of non-mapping')
                sr = L.simp(Val.dref(src))
                h = ex.heap
                if first:
                    ex.dict_write('copy', r, h.dlen(sr), h.arr('DHAS')[sr], h.arr('DVAL')[sr], h.arr('DKEY')[sr])
                    ex.event('dict_copy', r, sr)
                else:
                    # merge: defined pointwise at the skolem key (the later mapping wins)
                    kk = z3.Const('K_key', Val)
                    has2 = z3.Const(ex.fresh_name('dhas'), z3.ArraySort(Val, B))
                    val2 = z3.Const(ex.fresh_name('dval'), z3.ArraySort(Val, Val))
                    ex.assume(z3.Select(has2, kk) == z3.Or(h.dhas(r, kk), h.dhas(sr, kk)))
                    ex.assume(z3.Select(val2, kk) == z3.If(h.dhas(sr, kk), h.dval(sr, kk), h.dval(r, kk)))
                    n2 = ex.fresh_int('mergedlen')
                    ex.assume(z3.And(n2 >= h.dlen(r), n2 >= h.dlen(sr), n2 <= h.dlen(r) + h.dlen(sr)))
                    ex.dict_write('merge', r, n2, has2, val2, None)
                    ex.event('dict_merge', r, sr)
            else:
                self.dict_store(ex, r, p[1], p[2], internal=True)
            first = False
        return L.DictV(r)

    def make_slice(self, ex, lo, hi, st):
        r = ex.alloc()
        ex.set_field(r, 'sl_start', ex.to_val(lo), fresh_obj=True)
        ex.set_field(r, 'sl_stop', ex.to_val(hi), fresh_obj=True)
        ex.set_field(r, 'sl_step', ex.to_val(st), fresh_obj=True)
        return L.SliceV(r)

    def format_value(self, ex, v):
        # format() of plain data has no effects; of anything else it may run arbitrary code
        if isinstance(v, BoundMethod):
            ex.to_val(v)
            return
        if isinstance(v, (St, Closure)):
            return
        v = ex.to_val(v)
        return

    # ------------------------------------------------------------------ hashing
    def hashable(self, v):
        return z3.Not(z3.Or(L.is_List(v), L.is_Dict(v), L.is_Slice(v)))

    # ------------------------------------------------------------------ subscripts
    def norm_index(self, i, n):
        return z3.If(i < 0, i + n, i)

    def getitem(self, ex, obj, key):
        if isinstance(obj, tuple):
            k = L.simp(ex.to_val(key))
            if z3.is_app(k) and k.decl().name() == 'IntV' and z3.is_int_value(k.arg(0)):
                return obj[k.arg(0).as_long()]
            raise Unsupported('symbolic index into static tuple')
        obj = ex.to_val(obj)
        key = ex.to_val(key)
        if ex.branch(L.is_Obj(obj), 'getitem-obj'):
            cls = ex.class_of(obj)
            if cls is None:
                return self.stubs.unknown_call(ex, 'subscript of an object of unknown class', [obj, key])
            return self.engine.calls.call_method(ex, obj, '__getitem__', [key], {})
        if ex.branch(z3.Or(L.is_List(obj), L.is_Tuple(obj)), 'getitem-seq'):
            r = self.seq_ref_b(ex, obj)
            n = ex.heap.llen(r)
            ex.assume(n >= 0)
            if ex.branch(self.index_like(key), 'getitem-int'):
                i = self.num_value_int(key)
                j = self.norm_index(i, n)
                if ex.branch(z3.And(j >= 0, j < n), 'getitem-inrange'):
                    x = ex.known(ex.heap.lelt(r, j))
                    ty = self.engine.shapes.elem_ty(ex, r)
                    if ty is not None:
                        self.engine.shapes.assume(ex, x, ty)
                    else:
                        ex.assume_elem(x)
                    ex.event('elem_read', r, j, x)
                    return x
                ex.raise_('IndexError', 'list index out of range')
            if ex.branch(L.is_Slice(key), 'getitem-slice'):
                self.slice_may_raise(ex, key)
                m = ex.fresh_int('slicelen')
                ex.assume(z3.And(m >= 0, m <= n))
                arr = z3.Const(ex.fresh_name('sliced'), z3.ArraySort(I, Val))
                ex.note_array_elems(arr, ('from', r))
                nr = ex.new_list(m, arr, 'list')
                # a slice of a typed list (the operand list of a tree node) holds elements of the same type
                ty0 = self.engine.shapes.elem_ty(ex, r)
                if ty0 is not None:
                    ex.typed_refs[L.simp(nr).get_id()] = (nr, ty0)
                ex.event('write', 'list', 'slice-copy', nr, z3.IntVal(0), m, ())
                if ex.branch(L.is_List(obj), 'slice-of-list'):
                    return L.ListV(nr)
                return L.TupleV(nr)
            ex.raise_('TypeError', 'list indices must be integers or slices')
        if ex.branch(L.is_Dict(obj), 'getitem-dict'):
            r = L.simp(Val.dref(obj))
            if not ex.branch(self.hashable(key), 'hashable'):
                ex.raise_('TypeError', 'unhashable')
            # m[k] on a mapping the host supplied runs the mapping's own __getitem__ / __missing__ (a defaultdict inserts):
            # recorded with what is known about the key at this point
            ex.event('dict_subscript', r, key, ex.is_fresh(r), ex.check_sat(z3.Not(ex.heap.dhas(r, key))) == z3.unsat)
            if ex.branch(ex.heap.dhas(r, key), 'dict-has'):
                ex.assume(ex.heap.dlen(r) >= 1)
                tbl = getattr(ex, 'global_tables', {}).get(r.get_id())
                if tbl is not None and len(tbl[2]) <= 16 and any(L.is_true(L.simp(L.is_Fun(v))) for _, v in tbl[2]) \
                        and ex.check_sat(z3.Not(z3.And(ex.heap.arr('DHAS')[r] == tbl[0], ex.heap.arr('DVAL')[r] == tbl[1]))) == z3.unsat:
                    # a small module-level dispatch table that is still as the module built it: the entry is one of
                    # the functions written there, not a callable of unknown origin
                    for kv, vv in tbl[2]:
                        if ex.branch(key == kv, 'table-entry'):
                            ex.event('elem_read', r, key, vv)
                            return vv
                x = ex.known(ex.heap.dval(r, key))
                ex.assume_elem(x)
                ex.event('elem_read', r, key, x)
                return x
            ex.raise_('KeyError', 'missing key')
        if ex.branch(L.is_Str(obj), 'getitem-str'):
            n = L.slen(Val.s(obj))
            if ex.branch(self.index_like(key), 'getitem-int'):
                i = self.num_value_int(key)
                j = self.norm_index(i, n)
                if ex.branch(z3.And(j >= 0, j < n), 'getitem-inrange'):
                    s = L.UF('str_char', I, I, I)(Val.s(obj), j)
                    ex.assume(L.slen(s) == 1)
                    return L.StrV(s)
                ex.raise_('IndexError', 'string index out of range')
            if ex.branch(L.is_Slice(key), 'getitem-slice'):
                self.slice_may_raise(ex, key)
                s = ex.fresh_str('substr')
                ex.assume(L.slen(Val.s(s)) <= n)
                return s
            ex.raise_('TypeError', 'string indices must be integers')
        # None, numbers, functions ...: not subscriptable; opaque host objects: anything
        if ex.branch(L.is_Opaque(obj), 'getitem-opaque'):
            return self.stubs.unknown_call(ex, 'getitem-on-opaque', [obj, key])
        if ex.branch(L.is_Fun(obj), 'getitem-callable'):
            # a builtin exposed as the TYPE itself (dict, list, tuple, type ...) is subscriptable:
            # dict[1] is a types.GenericAlias, not plain data
            generic = [k for st, k in self.engine.static_ids.items()
                       if st.kind == 'builtin' and st.name in ('dict', 'list', 'tuple', 'type', 'set', 'frozenset')]
            if generic and ex.branch(z3.Or([Val.fn(obj) == k for k in generic]), 'getitem-generic-type'):
                ex.event('generic_alias', obj, key)
                return L.OpaqueV(L.OK['other'], ex.fresh_int('genericalias'))
        ex.raise_('TypeError', 'not subscriptable')

    def slice_may_raise(self, ex, key):
        r = L.simp(Val.slref(key))
        for f in ('sl_start', 'sl_stop', 'sl_step'):
            x = ex.get_field(r, f)
            if not ex.branch(z3.Or(L.is_None(x), self.index_like(x)), 'slice-part-int'):
                ex.raise_('TypeError', 'slice indices must be integers')
        st = ex.get_field(r, 'sl_step')
        if ex.branch(z3.And(self.index_like(st), self.num_value_int(st) == 0), 'slice-step-0'):
            ex.raise_('ValueError', 'slice step cannot be zero')

    def dict_store(self, ex, r, key, val, internal=False, kind='store'):
        h = ex.heap
        had = h.dhas(r, key)
        n = h.dlen(r)
        new_len = z3.If(had, n, n + 1)
        new_keys = z3.If(had, h.arr('DKEY')[r], z3.Store(h.arr('DKEY')[r], n, key))
        ex.dict_write(kind, r, L.simp(new_len), z3.Store(h.arr('DHAS')[r], key, z3.BoolVal(True)),
                      z3.Store(h.arr('DVAL')[r], key, val), new_keys, stored=(key, val))

    def setitem(self, ex, obj, key, val):
        obj = ex.to_val(obj)
        key = ex.to_val(key)
        val = ex.to_val(val)
        if ex.branch(L.is_Obj(obj), 'setitem-obj'):
            cls = ex.class_of(obj)
            if cls is None:
                self.stubs.unknown_call(ex, 'subscript store on an object of unknown class', [obj, key, val])
                return
            self.engine.calls.call_method(ex, obj, '__setitem__', [key, val], {})
            return
        if ex.branch(L.is_List(obj), 'setitem-list'):
            r = L.simp(Val.lref(obj))
            n = ex.heap.llen(r)
            ex.assume(n >= 0)
            if ex.branch(self.index_like(key), 'setitem-int'):
                i = self.num_value_int(key)
                j = self.norm_index(i, n)
                if ex.branch(z3.And(j >= 0, j < n), 'setitem-inrange'):
                    ex.list_write('setitem', r, n, z3.Store(ex.heap.lelts(r), j, val), stored=(val,))
                    return
                ex.raise_('IndexError', 'list assignment index out of range')
            if ex.branch(L.is_Slice(key), 'setitem-slice'):
                self.slice_may_raise(ex, key)
                m, src = self.iter_snapshot(ex, val)
                removed = ex.fresh_int('removed')
                ex.assume(z3.And(removed >= 0, removed <= n))
                # extended slices need equal lengths (ValueError otherwise)
                ex.may_raise(['ValueError'], 'extended slice size mismatch')
                arr = z3.Const(ex.fresh_name('spliced'), z3.ArraySort(I, Val))
                ex.note_array_elems(arr, ('from2', r, src))
                ex.list_write('setslice', r, n - removed + m, arr, stored=())
                return
            ex.raise_('TypeError', 'list indices must be integers or slices')
        if ex.branch(L.is_Dict(obj), 'setitem-dict'):
            r = L.simp(Val.dref(obj))
            if not ex.branch(self.hashable(key), 'hashable'):
                ex.raise_('TypeError', 'unhashable')
            self.dict_store(ex, r, key, val)
            return
        if ex.branch(L.is_Opaque(obj), 'setitem-opaque'):
            self.stubs.unknown_call(ex, 'setitem-on-opaque', [obj, key, val])
            return
        ex.raise_('TypeError', 'does not support item assignment')

    def delitem(self, ex, obj, key):
        obj = ex.to_val(obj)
        key = ex.to_val(key)
        if ex.branch(L.is_List(obj), 'delitem-list'):
            r = L.simp(Val.lref(obj))
            n = ex.heap.llen(r)
            ex.assume(n >= 0)
            if ex.branch(self.index_like(key), 'delitem-int'):
                i = self.num_value_int(key)
                j = self.norm_index(i, n)
                if ex.branch(z3.And(j >= 0, j < n), 'delitem-inrange'):
                    ex.list_write('delitem', r, n - 1, shifted_delete(ex, ex.heap.lelts(r), j))
                    return
                ex.raise_('IndexError', 'list assignment index out of range')
            if ex.branch(L.is_Slice(key), 'delitem-slice'):
                self.slice_may_raise(ex, key)
                removed = ex.fresh_int('removed')
                ex.assume(z3.And(removed >= 0, removed <= n))
                arr = z3.Const(ex.fresh_name('spliced'), z3.ArraySort(I, Val))
                ex.note_array_elems(arr, ('from', r))
                ex.list_write('delslice', r, n - removed, arr)
                return
            ex.raise_('TypeError', 'list indices must be integers or slices')
        if ex.branch(L.is_Dict(obj), 'delitem-dict'):
            r = L.simp(Val.dref(obj))
            if not ex.branch(self.hashable(key), 'hashable'):
                ex.raise_('TypeError', 'unhashable')
            h = ex.heap
            if ex.branch(h.dhas(r, key), 'dict-has'):
                ex.assume(ex.heap.dlen(r) >= 1)
                ex.dict_write('delete', r, h.dlen(r) - 1, z3.Store(h.arr('DHAS')[r], key, z3.BoolVal(False)),
                              h.arr('DVAL')[r], None)
                return
            ex.raise_('KeyError', 'missing key')
        if ex.branch(L.is_Opaque(obj), 'delitem-opaque'):
            self.stubs.unknown_call(ex, 'delitem-on-opaque', [obj, key])
            return
        ex.raise_('TypeError', 'does not support item deletion')

    # ------------------------------------------------------------------ operators
    def unary_neg(self, ex, v):
        v = ex.to_val(v)
        r = self._unary_neg(ex, v)
        ex.event('prim', 'neg', v, r)
        return r

    def unary_pos(self, ex, v):
        v = ex.to_val(v)
        if ex.branch(z3.Or(L.is_Int(v), L.is_Bool(v)), 'pos-int'):
            r = L.IntV(self.num_value_int(v))
        elif ex.branch(L.is_Dec(v), 'pos-dec'):
            # unary plus applies the context: rounds to 28 digits
            d = L.UF('dec_pos', I, I)(Val.d(v))
            ex.assume(z3.And(L.dec_digits(d) >= 1, L.dec_digits(d) <= z3.If(L.dec_digits(Val.d(v)) < 28, L.dec_digits(Val.d(v)), 28)))
            ex.may_raise(['ArithmeticError'], 'decimal signal')
            r = L.DecV(d)
        elif ex.branch(L.is_Float(v), 'pos-float'):
            r = v
        elif ex.branch(L.is_Opaque(v), 'pos-opaque'):
            r = self.stubs.unknown_call(ex, 'pos-on-opaque', [v])
        else:
            ex.raise_('TypeError', 'bad operand type for unary +')
        ex.event('prim', 'pos', v, r)
        return r

    def unary_invert(self, ex, v):
        v = ex.to_val(v)
        if ex.branch(z3.Or(L.is_Int(v), L.is_Bool(v)), 'inv-int'):
            return L.IntV(-self.num_value_int(v) - 1)
        if ex.branch(L.is_Opaque(v), 'inv-opaque'):
            return self.stubs.unknown_call(ex, 'invert-on-opaque', [v])
        ex.raise_('TypeError', 'bad operand type for unary ~')

    def _unary_neg(self, ex, v):
        if ex.branch(z3.Or(L.is_Int(v), L.is_Bool(v)), 'neg-int'):
            ex.small_int_axioms(self.num_value_int(v))
            ex.small_int_axioms(-self.num_value_int(v))
            r = L.IntV(-self.num_value_int(v))
            ex.assume(L.int_digits(-self.num_value_int(v)) == L.int_digits(self.num_value_int(v)))
            return r
        if ex.branch(L.is_Dec(v), 'neg-dec'):
            d = L.UF('dec_neg', I, I)(Val.d(v))
            # unary minus applies the context: rounds to 28 digits
            ex.assume(z3.And(L.dec_digits(d) >= 1, L.dec_digits(d) <= z3.If(L.dec_digits(Val.d(v)) < 28, L.dec_digits(Val.d(v)), 28)))
            ex.may_raise(['ArithmeticError'], 'decimal signal')
            return L.DecV(d)
        if ex.branch(L.is_Float(v), 'neg-float'):
            return L.FloatV(L.UF('flt_neg', I, I)(Val.fl(v)))
        ex.may_raise(['TypeError'], 'bad operand type for unary -') if False else None
        if ex.branch(L.is_Opaque(v), 'neg-opaque'):
            return self.stubs.unknown_call(ex, 'neg-on-opaque', [v])
        ex.raise_('TypeError', 'bad operand type for unary -')

    ARITH = {'Add': '+', 'Sub': '-', 'Mult': '*', 'Div': '/', 'Pow': '**', 'BitOr': '|', 'Mod': '%',
             'FloorDiv': '//'}

    BITWISE = {'BitXor': '^', 'BitAnd': '&', 'LShift': '<<', 'RShift': '>>', 'MatMult': '@'}

    def binop(self, ex, opname, a, b, inplace=False):
        if opname in self.BITWISE:
            a = ex.to_val(a)
            b = ex.to_val(b)
            op = self.BITWISE[opname]
            intlike = lambda v: z3.Or(L.is_Int(v), L.is_Bool(v))
            if op != '@' and ex.branch(z3.And(intlike(a), intlike(b)), 'bitwise-int'):
                if op in ('<<', '>>'):
                    ex.may_raise(['ValueError', 'OverflowError'], 'negative shift count')
                r = L.IntV(L.UF('int_' + {'^': 'xor', '&': 'and', '<<': 'lshift', '>>': 'rshift'}[op], I, I, I)(self.num_value_int(a), self.num_value_int(b)))
            elif ex.branch(z3.Or(L.is_Opaque(a), L.is_Opaque(b), L.is_Obj(a), L.is_Obj(b)), 'bitwise-opaque'):
                r = self.stubs.unknown_call(ex, '%s-on-opaque' % op, [a, b])
            else:
                ex.raise_('TypeError', 'unsupported operand type(s) for %s' % op)
            ex.event('prim', 'binop', op, a, b, inplace, r)
            return r
        if opname not in self.ARITH:
            raise Unsupported('operator %s' % opname)
        a = ex.to_val(a)
        b = ex.to_val(b)
        op = self.ARITH[opname]
        r = self._binop(ex, op, a, b, inplace)
        ex.event('prim', 'binop', op, a, b, inplace, r)
        return r

    def _binop(self, ex, op, a, b, inplace):
        both_num = z3.And(L.is_numeric(a), L.is_numeric(b))
        if ex.branch(both_num, 'binop-num'):
            return self.num_binop(ex, op, a, b)
        if op == '+':
            if ex.branch(z3.And(L.is_Str(a), L.is_Str(b)), 'add-str'):
                s = L.UF('str_concat', I, I, I)(Val.s(a), Val.s(b))
                ex.assume(L.slen(s) == L.slen(Val.s(a)) + L.slen(Val.s(b)))
                return L.StrV(s)
            if ex.branch(z3.And(L.is_List(a), L.is_List(b)), 'add-list'):
                ra, rb = L.simp(Val.lref(a)), L.simp(Val.lref(b))
                h = ex.heap
                na, nb = h.llen(ra), h.llen(rb)
                ex.assume(z3.And(na >= 0, nb >= 0))
                arr = concat_arrays(ex, h.lelts(ra), na, h.lelts(rb))
                if inplace:
                    ex.list_write('iadd', ra, na + nb, arr, stored=())
                    ex.event('iadd_from', ra, rb)
                    return a
                r = ex.new_list(na + nb, arr)
                ex.event('write', 'list', 'concat', r, z3.IntVal(0), na + nb, ())
                ex.event('concat_from', r, ra, rb)
                return L.ListV(r)
            if ex.branch(z3.And(L.is_Tuple(a), L.is_Tuple(b)), 'add-tuple'):
                ra, rb = L.simp(Val.tref(a)), L.simp(Val.tref(b))
                h = ex.heap
                na, nb = h.llen(ra), h.llen(rb)
                arr = concat_arrays(ex, h.lelts(ra), na, h.lelts(rb))
                r = ex.new_list(na + nb, arr, 'tuple')
                ex.event('write', 'list', 'concat', r, z3.IntVal(0), na + nb, ())
                return L.TupleV(r)
            if inplace and ex.branch(L.is_List(a), 'iadd-list-iter'):
                # list += iterable  == extend
                ra = L.simp(Val.lref(a))
                m, src = self.iter_snapshot(ex, b)
                na = ex.heap.llen(ra)
                arr = concat_arrays(ex, ex.heap.lelts(ra), na, src)
                ex.list_write('iadd', ra, na + m, arr, stored=())
                return a
        if op == '*':
            seq_a = z3.Or(L.is_Str(a), L.is_List(a), L.is_Tuple(a))
            seq_b = z3.Or(L.is_Str(b), L.is_List(b), L.is_Tuple(b))
            if ex.branch(z3.Or(z3.And(seq_a, self.index_like(b)), z3.And(seq_b, self.index_like(a))), 'mul-repeat'):
                return self.repeat(ex, a, b, inplace)
        if op == '%':
            if ex.branch(L.is_Str(a), 'mod-format'):
                ex.may_raise(['TypeError', 'ValueError'], 'format')
                return ex.fresh_str('fmt')
        if op == '|':
            if ex.branch(z3.And(L.is_Dict(a), L.is_Dict(b)), 'or-dict'):
                return self.stubs.unknown_call(ex, 'dict-union', [a, b])
        if ex.branch(z3.Or(L.is_Opaque(a), L.is_Opaque(b), L.is_Obj(a), L.is_Obj(b)), 'binop-opaque'):
            return self.stubs.unknown_call(ex, 'binop-on-opaque', [a, b])
        ex.raise_('TypeError', 'unsupported operand type(s) for %s' % op)

    def repeat(self, ex, a, b, inplace):
        seq, cnt = (a, b)
        if not ex.branch(z3.Or(L.is_Str(a), L.is_List(a), L.is_Tuple(a)), 'repeat-left-seq'):
            seq, cnt = b, a
        k = self.num_value_int(cnt)
        k = z3.If(k < 0, 0, k)
        ex.event('repeat', seq, cnt)
        if ex.branch(L.is_Str(seq), 'repeat-str'):
            s = ex.fresh_str('rep')
            # nonlinear: slen = slen(seq) * k; state what is needed
            ex.assume(z3.Implies(k == 0, L.slen(Val.s(s)) == 0))
            ex.assume(z3.Implies(k >= 1, L.slen(Val.s(s)) >= L.slen(Val.s(seq))))
            return s
        r0 = self.seq_ref_b(ex, seq)
        n = ex.heap.llen(r0)
        m = ex.fresh_int('replen')
        ex.assume(z3.Implies(k == 0, m == 0))
        ex.assume(z3.Implies(k == 1, m == n))
        ex.assume(z3.Implies(k >= 2, m >= 2 * n))
        ex.assume(m >= 0)
        arr = z3.Const(ex.fresh_name('rep'), z3.ArraySort(I, Val))
        ex.note_array_elems(arr, ('from', r0))
        if inplace and ex.branch(L.is_List(seq), 'imul-list') and seq is a:
            ex.list_write('imul', r0, m, arr)
            return seq
        r = ex.new_list(m, arr)
        ex.event('write', 'list', 'repeat', r, z3.IntVal(0), m, ())
        return z3.If(L.is_List(seq), L.ListV(r), L.TupleV(r))

    # numeric tower ------------------------------------------------------------------
    def num_binop(self, ex, op, a, b):
        """a, b numeric (Int, Bool, Float, Dec)"""
        any_dec = z3.Or(L.is_Dec(a), L.is_Dec(b))
        any_flt = z3.Or(L.is_Float(a), L.is_Float(b))
        if ex.branch(z3.And(any_dec, any_flt), 'dec-float-mix'):
            ex.raise_('TypeError', 'unsupported operand type(s): Decimal and float')
        ex.event('num_binop', op, a, b)
        if ex.branch(any_dec, 'num-dec'):
            da = self.as_dec_id(ex, a)
            db = self.as_dec_id(ex, b)
            fn = {'+': 'dec_add', '-': 'dec_sub', '*': 'dec_mul', '/': 'dec_div', '**': 'dec_pow',
                  '%': 'dec_mod', '//': 'dec_floordiv'}.get(op)
            if fn is None:
                ex.raise_('TypeError', 'unsupported operand for Decimal')
            d = L.UF(fn, I, I, I)(da, db)
            # results of context arithmetic are rounded to the context precision (28)
            ex.assume(z3.And(L.dec_digits(d) >= 1, L.dec_digits(d) <= 28))
            ex.use_assumption('A-DEC-CTX: decimal arithmetic rounds results to the context precision (default 28)')
            ex.may_raise(['ArithmeticError'], 'decimal signal')
            return L.DecV(d)
        if ex.branch(any_flt, 'num-float'):
            fa = self.as_flt_id(ex, a)
            fb = self.as_flt_id(ex, b)
            f = L.UF('flt_' + {'+': 'add', '-': 'sub', '*': 'mul', '/': 'div', '**': 'pow', '%': 'mod',
                               '//': 'floordiv', '|': 'or'}[op], I, I, I)(fa, fb)
            if op == '|':
                ex.raise_('TypeError', 'unsupported operand for float')
            ex.may_raise(['ArithmeticError'], 'float error')
            return L.FloatV(f)
        ia = self.num_int(ex, a)
        ib = self.num_int(ex, b)
        if op == '+':
            r = ia + ib
            ex.assume(L.int_digits(r) <= z3.If(L.int_digits(ia) > L.int_digits(ib), L.int_digits(ia), L.int_digits(ib)) + 1)
            ex.assume(L.int_digits(r) >= 1)
            return L.IntV(r)
        if op == '-':
            r = ia - ib
            ex.assume(L.int_digits(r) <= z3.If(L.int_digits(ia) > L.int_digits(ib), L.int_digits(ia), L.int_digits(ib)) + 1)
            ex.assume(L.int_digits(r) >= 1)
            return L.IntV(r)
        if op == '*':
            r = L.UF('int_mul', I, I, I)(ia, ib)
            ex.assume(L.int_digits(r) <= L.int_digits(ia) + L.int_digits(ib))
            ex.assume(L.int_digits(r) >= 1)
            return L.IntV(r)
        if op == '/':
            ex.may_raise(['ZeroDivisionError', 'OverflowError'], 'int / int')
            return L.FloatV(L.UF('int_truediv', I, I, I)(ia, ib))
        if op == '**':
            ex.may_raise(['ZeroDivisionError'], '0 ** negative')
            r = L.UF('int_pow', I, I, I)(ia, ib)
            # int ** negative int gives a float; otherwise an int of unbounded size
            if ex.branch(ib < 0, 'pow-neg'):
                return L.FloatV(L.UF('int_pow_f', I, I, I)(ia, ib))
            ex.assume(L.int_digits(r) >= 1)
            return L.IntV(r)
        if op == '|':
            r = L.UF('int_or', I, I, I)(ia, ib)
            ex.assume(z3.Implies(ia == 0, r == ib))
            ex.assume(z3.Implies(ib == 0, r == ia))
            return L.IntV(r)
        if op in ('%', '//'):
            ex.may_raise(['ZeroDivisionError'], 'int %s int' % op)
            return L.IntV(L.UF('int_' + ('mod' if op == '%' else 'floordiv'), I, I, I)(ia, ib))
        raise Unsupported('int op %s' % op)

    def as_dec_id(self, ex, v):
        """Decimal view of an Int/Bool/Dec operand inside decimal arithmetic (exact conversion)"""
        d = z3.If(L.is_Dec(v), Val.d(v), L.dec_of_int(self.num_value_int(v)))
        return d

    def as_flt_id(self, ex, v):
        return z3.If(L.is_Float(v), Val.fl(v), L.UF('flt_of_int', I, I)(self.num_value_int(v)))

    # comparisons --------------------------------------------------------------------
    def py_eq(self, ex, a, b):
        """formula for a == b"""
        uf = L.UF('py_eq', Val, Val, B)
        both_str = z3.And(L.is_Str(a), L.is_Str(b))
        both_int = z3.And(z3.Or(L.is_Int(a), L.is_Bool(a)), z3.Or(L.is_Int(b), L.is_Bool(b)))
        none_any = z3.Or(L.is_None(a), L.is_None(b))
        str_other = z3.Or(z3.And(L.is_Str(a), z3.Not(L.is_Str(b)), z3.Not(L.is_Opaque(b)), z3.Not(L.is_Obj(b))),
                          z3.And(L.is_Str(b), z3.Not(L.is_Str(a)), z3.Not(L.is_Opaque(a)), z3.Not(L.is_Obj(a))))
        return z3.If(both_str, Val.s(a) == Val.s(b),
               z3.If(both_int, self.num_value_int(a) == self.num_value_int(b),
               z3.If(none_any, z3.And(L.is_None(a), L.is_None(b)),
               z3.If(str_other, z3.BoolVal(False),
               z3.If(a == b, z3.Not(z3.Or(L.is_Float(a), L.is_Dec(a), L.is_Opaque(a), L.is_Obj(a))) | uf(a, b),
                     uf(a, b))))))

    def compare(self, ex, opname, a, b):
        r = self._compare(ex, opname, a, b)
        if opname not in ('Is', 'IsNot'):
            ex.event('prim', 'compare', opname, ex.to_val(a), ex.to_val(b), r)
        return r

    def _compare(self, ex, opname, a, b):
        if opname in ('Is', 'IsNot'):
            r = self.identical(ex, a, b)
            return L.BoolV(r if opname == 'Is' else z3.Not(r))
        a = ex.to_val(a)
        b = ex.to_val(b)
        if opname in ('Eq', 'NotEq'):
            if ex.branch(z3.Or(z3.And(L.is_Obj(a), L.is_None(b)), z3.And(L.is_Obj(b), L.is_None(a))), 'eq-obj-none'):
                o = a if L.is_true(L.simp(L.is_Obj(a))) or not L.is_true(L.simp(L.is_Obj(b))) else b
                cls = ex.class_of(o)
                if cls is not None:
                    # an instance of a class the model knows (a package class, a PLY token / production): no __eq__ of
                    # theirs makes an instance equal to None (a dataclass __eq__ answers NotImplemented -> identity)
                    return L.BoolV(z3.BoolVal(opname != 'Eq'))
            if ex.branch(z3.Or(z3.And(L.is_Obj(a), L.is_scalar(b)), z3.And(L.is_Obj(b), L.is_scalar(a))), 'eq-obj-scalar'):
                pkg = [x for x in (a, b) if ex.class_of(x) in self.src.classes]
                if pkg:
                    # package (data)classes compare equal only to instances of the same class
                    return L.BoolV(z3.BoolVal(opname != 'Eq'))
            if ex.branch(z3.Or(L.is_Opaque(a), L.is_Opaque(b), L.is_Obj(a), L.is_Obj(b)), 'eq-opaque'):
                cls_a = ex.class_of(a) if True else None
                # dataclass / object equality: no effects for package classes; host objects unknown
                r = L.UF('obj_eq', Val, Val, B)(a, b)
                return L.BoolV(r if opname == 'Eq' else z3.Not(r))
            r = self.py_eq(ex, a, b)
            return L.BoolV(r if opname == 'Eq' else z3.Not(r))
        if opname in ('Lt', 'LtE', 'Gt', 'GtE'):
            both_num = z3.And(L.is_numeric(a), L.is_numeric(b))
            if ex.branch(both_num, 'cmp-num'):
                both_int = z3.And(z3.Or(L.is_Int(a), L.is_Bool(a)), z3.Or(L.is_Int(b), L.is_Bool(b)))
                if ex.branch(both_int, 'cmp-int'):
                    ia, ib = self.num_value_int(a), self.num_value_int(b)
                    r = {'Lt': ia < ib, 'LtE': ia <= ib, 'Gt': ia > ib, 'GtE': ia >= ib}[opname]
                    return L.BoolV(r)
                # Decimal/float comparisons: exact rational order (Decimal vs float is allowed for ordering)
                r = L.UF('num_' + opname.lower(), Val, Val, B)(a, b)
                ex.may_raise(['ArithmeticError'], 'NaN comparison signal')
                return L.BoolV(r)
            same_seq = z3.Or(z3.And(L.is_Str(a), L.is_Str(b)), z3.And(L.is_List(a), L.is_List(b)),
                             z3.And(L.is_Tuple(a), L.is_Tuple(b)))
            if ex.branch(same_seq, 'cmp-seq'):
                ex.may_raise(['TypeError'], 'element comparison')
                return L.BoolV(L.UF('seq_' + opname.lower(), Val, Val, B)(a, b))
            if ex.branch(z3.Or(L.is_Opaque(a), L.is_Opaque(b), L.is_Obj(a), L.is_Obj(b)), 'cmp-opaque'):
                return self.stubs.unknown_call(ex, 'compare-on-opaque', [a, b])
            ex.raise_('TypeError', 'not supported between instances')
        if opname in ('In', 'NotIn'):
            r = self.contains(ex, b, a)
            return L.BoolV(r if opname == 'In' else z3.Not(r))
        raise Unsupported('comparison %s' % opname)

    def identical(self, ex, a, b):
        if isinstance(a, St) or isinstance(b, St):
            if isinstance(a, St) and isinstance(b, St):
                return z3.BoolVal(a == b)
            return z3.BoolVal(False)
        a = ex.to_val(a)
        b = ex.to_val(b)
        return a == b

    def contains(self, ex, container, item):
        """formula for `item in container` (may raise)"""
        ex.event('contains', container, item)
        if isinstance(container, tuple):
            return z3.Or([self.py_eq(ex, ex.to_val(item), ex.to_val(c)) for c in container])
        c = container
        if ex.branch(L.is_Dict(c), 'in-dict'):
            if not ex.branch(self.hashable(item), 'hashable'):
                ex.raise_('TypeError', 'unhashable')
            return ex.heap.dhas(L.simp(Val.dref(c)), item)
        if ex.branch(z3.Or(L.is_List(c), L.is_Tuple(c)), 'in-seq'):
            r = self.seq_ref_b(ex, c)
            n = L.simp(ex.heap.llen(r))
            if z3.is_int_value(n) and n.as_long() <= 8:
                # a display of a few elements (`x in (7, 8)`): membership is the disjunction of the comparisons
                return z3.Or([self.py_eq(ex, ex.to_val(item), L.simp(ex.heap.lelt(r, z3.IntVal(k)))) for k in range(n.as_long())] or [z3.BoolVal(False)])
            return L.UF('seq_contains', I, z3.ArraySort(I, Val), Val, B)(ex.heap.llen(r), ex.heap.lelts(r), item)
        if ex.branch(L.is_Str(c), 'in-str'):
            if not ex.branch(L.is_Str(item), 'in-str-str'):
                ex.raise_('TypeError', 'in <string> requires string as left operand')
            lit = ex.lit_of(item)
            return L.UF('str_contains', I, I, B)(Val.s(c), Val.s(item))
        if ex.branch(z3.Or(L.is_Opaque(c), L.is_Obj(c)), 'in-opaque'):
            cls = ex.class_of(c)
            if cls is not None and (cls == 'SqParserCache'):
                return self.engine.calls.call_method(ex, c, '__contains__', [item], {})
            v = self.stubs.unknown_call(ex, 'contains-on-opaque', [c, item])
            return ex.truthy(v)
        ex.raise_('TypeError', 'argument is not iterable')

    # ------------------------------------------------------------------ static calls / methods
    def call_static(self, ex, st, args, kwargs):
        return self.stubs.call_static(ex, st, args, kwargs)

    def method(self, ex, recv, name, args, kwargs):
        return self.stubs.method(ex, recv, name, args, kwargs)

    def ext_method(self, ex, cls, recv, name, args, kwargs):
        return self.stubs.ext_method(ex, cls, recv, name, args, kwargs)

    # ------------------------------------------------------------------ with
    def with_stmt(self, ex, item, body, env):
        cm = ex.eval(item.context_expr, env)
        if not (isinstance(cm, tuple) and cm and cm[0] == 'contextmanager'):
            # a context manager the model knows nothing about: arbitrary effects on entry and on exit
            v = self.stubs.unknown_call(ex, 'with on an object of unknown class', [ex.to_val(cm)] if not isinstance(cm, tuple) else [])
            if item.optional_vars is not None:
                ex.assign(item.optional_vars, v, env)
            try:
                ex.exec_block(body, env)
            finally:
                ex.havoc_data()
            return
        _, fi, recv, args, kwargs = cm
        pre = [recv] if recv is not None else []
        contract = self.engine.contracts.get(fi.key)
        if contract is not None and ex.task.finfo is not fi:
            tok, as_val = contract.enter(ex, pre + list(args), kwargs)
            if item.optional_vars is not None:
                ex.assign(item.optional_vars, as_val, env)
            try:
                ex.exec_block(body, env)
            except PyRaise as e:
                contract.exit(ex, tok, e.cls)
                raise
            except ReturnEx:
                contract.exit(ex, tok, None)
                raise
            contract.exit(ex, tok, None)
            return
        self.run_contextmanager(ex, fi, pre + list(args), kwargs,
                                lambda v: self._with_body(ex, item, body, env, v))

    def _with_body(self, ex, item, body, env, v):
        if item.optional_vars is not None:
            ex.assign(item.optional_vars, v, env)
        ex.exec_block(body, env)

    def run_contextmanager(self, ex, fi, args, kwargs, body_fn):
        """contextlib protocol: run the generator to its yield, run the body there; a body
        exception is thrown at the yield, a body `return` resumes the generator normally"""
        genv = Env()
        self.engine.calls.bind(ex, fi, args, kwargs, genv)
        pending = {}
        yields = [0]

        def hook(v):
            yields[0] += 1
            if yields[0] > 1:
                ex.raise_('RuntimeError', "generator didn't stop")
            try:
                body_fn(v)
            except ReturnEx as r:
                pending['ret'] = r
        saved_hook = getattr(ex, 'yield_hook', None)
        saved = (ex.cur_module, ex.cur_class)
        ex.yield_hook = hook
        ex.cur_module, ex.cur_class = fi.module, fi.cls
        ex.depth += 1
        try:
            try:
                ex.exec_block(fi.body(), genv)
            except ReturnEx:
                pass
        finally:
            ex.depth -= 1
            ex.yield_hook = saved_hook
            ex.cur_module, ex.cur_class = saved
        if yields[0] == 0:
            ex.raise_('RuntimeError', "generator didn't yield")
        if 'ret' in pending:
            raise pending['ret']
