"""Aggregation of obligations into a verdict, lock file, evidence, KNOWN-FINDING / VIOLATION lines."""
import hashlib
import json
import os
import re
import sys
import time

from . import findings as findings_mod

ROOT = os.path.dirname(os.path.dirname(os.path.abspath(__file__)))

TRUSTED_BASE = [
    'sqv (own AST->VC symbolic executor and z3 encoding; guarded by canaries, lock file, dual back ends in the thorough tier, seeded-mutant self-test)',
    'z3 4.x/5.x SMT solver (quick); cvc5 re-check of the same SMT-LIB queries (thorough)',
    'Python semantics assumed by the encoding (DESIGN 2.5): left-to-right evaluation, attribute lookup by field then MRO, isinstance by tag, unbounded ints, single thread, only explicit/stub-declared raises',
    'stubs for CPython builtins, copy, functools, math, random, decimal, regex (sqv/stubs.py, sqv/pymodel.py): assumed contracts, cross-checked natively in the thorough tier',
    'PLY lexer and LR drivers (smartquery/ply): execute the tables / call t_*, p_*, p_error as documented',
    'A-HOST: host callables preserve the two-state invariants; host mappings behave as dict/MutableMapping',
]


def status_of(instances):
    st = {o['status'] for o in instances}
    if 'refuted' in st:
        return 'refuted'
    if 'unknown' in st:
        return 'unknown'
    if 'known' in st:
        return 'known'
    return 'proved'


def relock(run_symbolic, all_props):
    t0 = time.time()
    eng, labels, run_labels, results, dt = run_symbolic(None, 'quick', None)
    from . import extras
    lock = {'props': {}, 'relevant': {}, 'tasks': {}, 'source_digest': eng.src.source_digest}
    by_prop = {p: {} for p in all_props}
    for r in results:
        lock['tasks'][r['key']] = {'time': r['time'], 'paths': r['paths']}
        if r['errors'] or r['undecided']:
            print('relock: task %s has errors/undecided: %s %s' % (r['key'], r['errors'][:1], r['undecided']))
        for o in r['obligations']:
            if (o.get('info') or {}).get('soft') or ':CANARY:' in o['name']:
                continue
            for p in o['props']:
                if p in by_prop:
                    by_prop[p].setdefault(o['name'], set()).add(r['key'])
    for p in all_props:
        ex_obs, _ = extras.run(p, 'quick', 0)
        names = set(by_prop[p])
        for o in ex_obs:
            if p in o['props'] and not (o.get('info') or {}).get('soft'):
                names.add(o['name'])
        lock['props'][p] = sorted(names)
        rel = set()
        for n, ks in by_prop[p].items():
            rel |= ks
        lock['relevant'][p] = sorted(rel)
    with open(os.path.join(ROOT, 'contracts', 'OBLIGATIONS.lock'), 'w') as f:
        json.dump(lock, f, indent=0, sort_keys=True)
    print('relocked: %d tasks, %s obligations per property, %.1fs' % (
        len(results), {p: len(v) for p, v in lock['props'].items()}, time.time() - t0))
    return 0


lock_key = findings_mod.lock_key


def check_property(prop, tier, seed, run_symbolic, lock, verbose=False, jobs=None):
    t0 = time.time()
    from . import extras, replay
    out = []
    exit_code = 0
    eng, labels, run_labels, results, sym_time = run_symbolic(prop, tier, lock, jobs)
    obligations = []
    for r in results:
        for o in r['obligations']:
            if prop in o['props']:
                o['task'] = r['key']
                obligations.append(o)
    extra_obs, extra_info = extras.run(prop, tier, seed)
    cvc5 = {'agree': 0, 'disagree': [], 'undecided': 0, 'seconds': 0.0}
    for r in results:
        c = r.get('cvc5')
        if c:
            cvc5['agree'] += c['agree']
            cvc5['undecided'] += c['undecided']
            cvc5['disagree'] += c['disagree']
            cvc5['seconds'] += c['seconds']
    for o in extra_obs:
        o.setdefault('task', 'extras')
    obligations += [o for o in extra_obs if prop in o['props']]
    errors = [(r['key'], e) for r in results for e in r['errors']] + [('extras', e) for e in extra_info.get('errors', [])]
    gone = sorted(set(getattr(eng, 'missing_functions', [])))
    undecided = [(r['key'], u) for r in results for u in r['undecided']] + \
                [('extras', u) for u in extra_info.get('undecided', [])]

    # canaries
    can = {o['name'].split(':CANARY:')[1]: o['status'] for o in obligations if ':CANARY:' in o['name']}
    canary_ok = (can.get('symbolic-false-clause-must-be-refuted') == 'refuted' and
                 can.get('static-false-clause-must-be-refuted') == 'refuted' and
                 can.get('true-clause-must-be-proved') == 'proved')
    obligations = [o for o in obligations if ':CANARY:' not in o['name']]

    # known findings on structural (non-symbolic) obligations: matched by name and recorded observation
    for f in findings_mod.known():
        eq = f.get('info_equals') or {}
        for o in obligations:
            if lock_key(o['name']) in [lock_key(x) for x in f.get('obligations', [])] and o['status'] == 'refuted' and o.get('func') == 'extras':
                if all(str((o.get('info') or {}).get(k)) == str(v) for k, v in eq.items()):
                    o['status'] = 'known'
                    o.setdefault('info', {})['known_findings'] = [f['id']]
    by_name = {}
    for o in obligations:
        by_name.setdefault(o['name'], []).append(o)
    verdict = {n: status_of(v) for n, v in by_name.items()}

    # lock: every obligation generated on the unchanged tree must still be generated
    # (compared modulo the incidental part of a name: which p_* function carries a production, which def a table entry names)
    missing = []
    if lock is not None:
        have = {lock_key(n) for n in by_name}
        gone_quals = [k.split(':', 1)[1] for k in gone]
        for n in lock['props'].get(prop, []):
            if lock_key(n) not in have:
                # the clauses of a helper that no longer exists (inlined into its callers, which are still checked
                # against their own specifications) go with it
                if any((':%s:' % q) in n or n.split(':')[1:2] == [q] for q in gone_quals):
                    continue
                missing.append(n)
    locked = {lock_key(n) for n in (lock or {}).get('props', {}).get(prop, [])}
    new_names = sorted(n for n in by_name if lock is not None and lock_key(n) not in locked)

    known = findings_mod.known()
    fixed = [f for f in findings_mod.load() if f.get('status') == 'fixed' and f.get('property') == prop]
    known_by_id = {f['id']: f for f in known}
    matched_ids = []
    for n, st in verdict.items():
        if st == 'known':
            for o in by_name[n]:
                for fid in (o.get('info') or {}).get('known_findings', []):
                    if fid not in matched_ids:
                        matched_ids.append(fid)
    violations = []
    for n, st in sorted(verdict.items()):
        if st == 'refuted':
            inst = [o for o in by_name[n] if o['status'] == 'refuted'][0]
            rp = replay.attempt(prop, n, inst, eng.src.repo)
            violations.append((n, rp))
    # bounded stand-in (never counted as proved): native search for a failing input on the real code
    orc = replay.run_oracle(prop, eng.src.repo, seed, 'quick' if tier != 'thorough' else 'thorough')
    ores = orc.get('result') or {}
    standin = {'name': 'native property oracle sqv/native/oracles.py %s' % prop, 'bound': 'fixed corpus + seeded random cases (%s budget)' % tier,
               'cases': ores.get('cases', 0), 'failures': ores.get('n_failures', 0), 'counted_as_proved': False,
               'oracle_error': ores.get('oracle_error') or (orc.get('stderr') if not ores else None)}
    extra_info.setdefault('bounded_standins', []).append(standin)
    # failing inputs that are exactly the recorded probes of a known finding are that finding, nothing else is
    probe_ids = {f['id'] for f in known if f.get('oracle_probe') and f.get('property') == prop}
    for x in (ores.get('failures') or []):
        if x.get('known_id') in probe_ids and x['known_id'] not in matched_ids:
            matched_ids.append(x['known_id'])
    new_failures = [x for x in (ores.get('failures') or []) if x.get('known_id') not in probe_ids]
    standin['failures'] = len(new_failures) if ores.get('n_failures', 0) <= len(ores.get('failures') or []) else ores.get('n_failures', 0)
    standin['failures_that_are_known_findings'] = len(ores.get('failures') or []) - len(new_failures)
    if new_failures and not violations:
        rp = replay.attempt(prop, 'bounded-standin:%s:failing-input-on-the-real-code' % prop,
                            {'func': 'sqv/native/oracles.py', 'path': '', 'model': new_failures[0], 'info': {}, 'static': True},
                            eng.src.repo)
        violations.append(('bounded-standin:%s:failing-input-on-the-real-code' % prop, rp))
    if tier == 'thorough':
        # cross-check of the stubs (the largest part of the trusted base) against CPython
        sc = replay.run_oracle('STUBS', eng.src.repo, seed, 'thorough')
        sres = sc.get('result') or {}
        extra_info['bounded_standins'].append({'name': 'stub cross-check against CPython (sqv/native/oracles.py STUBS)', 'bound': 'seeded random draws',
                                              'cases': sres.get('cases', 0), 'failures': sres.get('n_failures', 0), 'counted_as_proved': False})
        if sres.get('failures') or not sres:
            errors.append(('stubcheck', 'a stub disagrees with CPython: %s' % ((sres.get('failures') or [sc.get('stderr')])[0],)))
    if ores.get('oracle_error') or (not ores):
        errors.append(('oracle', 'native oracle failed: %s' % (ores.get('oracle_error') or orc.get('stderr'))))
    unknown_names = sorted(n for n, st in verdict.items() if st == 'unknown')

    for fid in matched_ids:
        f = known_by_id.get(fid)
        if f is not None and f['property'] == prop:
            out.append('KNOWN-FINDING: property=%s %s' % (prop, f['what']))
    for n, rp in violations:
        line = 'VIOLATION property=%s replay=%s' % (prop, rp['path'])
        if not rp['reproduced']:
            line += ' no-failing-input-found'
        out.append(line)
        out.append('  obligation %s refuted%s' % (n, '' if rp['reproduced'] else ' (verifier counter-model did not replay natively; obligation and solver output are in the replay file)'))
    if violations:
        exit_code = 1
    elif errors or not canary_ok or cvc5['disagree']:
        exit_code = 3
    elif undecided or unknown_names:
        exit_code = 2          # (the clauses of an undecided function are missing from the run as a matter of course)
    elif missing:
        exit_code = 3

    for k in gone:
        out.append('NOTE function under contract is no longer in the source (its clauses go with it; callers are checked against their own specifications): %s' % k)
    for dsg in cvc5['disagree'][:5]:
        out.append('CHECKER-ERROR back ends disagree: %s' % dsg)
    for k, e in errors[:5]:
        out.append('CHECKER-ERROR %s: %s' % (k, e.strip().splitlines()[-1] if e.strip() else e))
    if not canary_ok:
        out.append('CHECKER-ERROR canary: %s' % can)
    for n in missing[:20]:
        out.append('CHECKER-ERROR locked obligation no longer generated: %s' % n)
    for k, u in undecided[:10]:
        out.append('UNDECIDED %s: %s' % (k, u))
    for n in unknown_names[:10]:
        out.append('UNDECIDED solver unknown: %s' % n)

    claimed = [n for n, st in verdict.items() if st != 'known']
    discharged = [n for n in claimed if verdict[n] == 'proved']
    funcs = sorted({o['task'] for o in obligations})
    samples = []
    for n in sorted(by_name)[:400:max(1, len(by_name) // 6 or 1)][:6]:
        o = by_name[n][0]
        samples.append({'obligation': n, 'function': o.get('func') or o.get('task'), 'path': o.get('path'),
                        'verdict': verdict[n], 'instances': len(by_name[n]), 'solver_s': o.get('time')})
    assumptions = sorted(set(a for r in results for a in r.get('assumptions', [])) | set(extra_info.get('assumptions', [])))
    wall = time.time() - t0
    evidence = {
        'property_id': prop, 'tier': tier if tier in ('quick', 'thorough') else 'quick', 'seed': seed,
        'level': extra_info.get('level', 'proof'),
        'coverage': {
            'obligations': len(claimed), 'discharged': len(discharged),
            'checker_cmd': './check %s --tier %s' % (prop, tier),
            'trusted_base': TRUSTED_BASE + extra_info.get('trusted_base', []),
            'obligation_instances': len(obligations),
            'refuted_by_known_findings': sorted(n for n, st in verdict.items() if st == 'known'),
            'known_findings_matched': matched_ids,
            'fixed_findings': [f.get('line') for f in fixed],
            'functions_under_contract': funcs,
            'tasks_run': len(run_labels), 'tasks_total': len(labels),
            'paths': sum(r['paths'] for r in results), 'dead_paths': sum(r['dead_paths'] for r in results),
            'backends': {'z3': len([o for o in obligations if not o.get('static')]),
                         'static(structural)': len([o for o in obligations if o.get('static')]),
                         'cvc5(re-check of one instance per clause, thorough tier)': cvc5['agree'],
                         'cvc5_undecided': cvc5['undecided'], 'cvc5_disagree': len(cvc5['disagree']), 'cvc5_seconds': round(cvc5['seconds'], 1)},
            'solver_time_s': round(sum(o.get('time') or 0 for o in obligations), 3),
            'symbolic_wall_s': round(sym_time, 2),
            'canaries': can,
            'new_obligations_not_in_lock': new_names[:50],
            'samples': samples,
            'bounded_standins': extra_info.get('bounded_standins', []),
            'explanation': extra_info.get('explanation', 'contract-based deductive verification: VCs generated from the Python AST of the real functions, discharged by z3 per path and clause'),
            'source_digest': eng.src.source_digest,
        },
        'assumptions': assumptions + extra_info.get('assumed', []),
        'wall_s': round(wall, 2),
        'violations': len(violations),
    }
    outdir = os.environ.get('SQV_OUT', ROOT)        # the seeded self-test redirects its output away from /verif
    os.makedirs(os.path.join(outdir, 'evidence'), exist_ok=True)
    with open(os.path.join(outdir, 'evidence', '%s.json' % prop), 'w') as f:
        json.dump(evidence, f, indent=1)
    for line in out:
        print(line)
    print('%s: %d obligations (%d instances) over %d functions, %d discharged, %d refuted-known, %d violated, '
          '%d undecided; exit %d; %.1fs' % (prop, len(by_name), len(obligations), len(funcs), len(discharged),
                                           len(by_name) - len(claimed), len(violations), len(unknown_names) + len(undecided),
                                           exit_code, wall))
    if verbose:
        for n, st in sorted(verdict.items()):
            print('   %-8s %s' % (st, n))
    return exit_code
