"""Assumed contracts on dependencies: Python builtins and methods, copy, functools, math,
random, decimal, regex, typing and the PLY API surface (DESIGN 2.6).  Each stub gives
result tag(s), result in model terms, write effects, raised classes and abstract attributes."""
import z3

from . import logic as L
from .logic import Val, I, B
from .symex import (Env, St, Closure, BoundMethod, PyRaise, ReturnEx, PathEnd, Unsupported)
from .calls import Pack
from .loops import IterDesc

FORBIDDEN = {'eval', 'exec', 'compile', 'open', '__import__', 'getattr', 'setattr', 'vars', 'globals',
             'locals', 'input', 'print', 'dir', 'object', 'type', 'id'}

DEC_NAMES = ('decimal.Decimal', 'Decimal')


STR_PURE = {
    'capitalize': ('str', (0, 0)), 'casefold': ('str', (0, 0)), 'center': ('str', (1, 2)), 'expandtabs': ('str', (0, 1)),
    'ljust': ('str', (1, 2)), 'rjust': ('str', (1, 2)), 'swapcase': ('str', (0, 0)), 'title': ('str', (0, 0)), 'zfill': ('str', (1, 1)),
    'removeprefix': ('str', (1, 1)), 'removesuffix': ('str', (1, 1)), 'format': ('str', (0, 99)),
    'isalnum': ('bool', (0, 0)), 'isalpha': ('bool', (0, 0)), 'isascii': ('bool', (0, 0)), 'isdecimal': ('bool', (0, 0)),
    'isdigit': ('bool', (0, 0)), 'isidentifier': ('bool', (0, 0)), 'islower': ('bool', (0, 0)), 'isnumeric': ('bool', (0, 0)),
    'isprintable': ('bool', (0, 0)), 'isspace': ('bool', (0, 0)), 'istitle': ('bool', (0, 0)), 'isupper': ('bool', (0, 0)),
    'rfind': ('int', (1, 3)), 'rindex': ('int', (1, 3)),
    'splitlines': ('strlist', (0, 1)), 'rsplit': ('strlist', (0, 2)),
    'partition': ('strtuple3', (1, 1)), 'rpartition': ('strtuple3', (1, 1)),
}


# pure methods of decimal.Decimal by result kind (all work in the context: a Decimal result has at most 28 digits)
DEC_PURE = {'quantize': 'dec', 'to_integral_value': 'dec', 'to_integral': 'dec', 'to_integral_exact': 'dec', 'normalize': 'dec',
            'sqrt': 'dec', 'ln': 'dec', 'log10': 'dec', 'exp': 'dec', 'scaleb': 'dec', 'fma': 'dec', 'remainder_near': 'dec',
            'max': 'dec', 'min': 'dec', 'next_plus': 'dec', 'next_minus': 'dec',
            'is_nan': 'bool', 'is_finite': 'bool', 'is_infinite': 'bool', 'is_zero': 'bool', 'is_signed': 'bool', 'is_normal': 'bool',
            'adjusted': 'int'}
MATH_FLOAT = {'sqrt', 'log', 'log2', 'log10', 'exp', 'sin', 'cos', 'tan', 'asin', 'acos', 'atan', 'atan2', 'pow', 'fabs', 'hypot',
              'degrees', 'radians', 'fmod', 'copysign'}
MATH_BOOL = {'isnan', 'isinf', 'isfinite', 'isclose'}


def F_CAP():
    from .families import CAP
    return CAP


class Stubs:
    def __init__(self, engine, model):
        self.engine = engine
        self.model = model
        self.src = engine.src

    # ------------------------------------------------------------------ unknown code
    def unknown_call(self, ex, what, args):
        """a call the model knows nothing about: arbitrary result, arbitrary effects on data"""
        ex.event('unknown_call', what, tuple(args))
        ex.havoc_data()
        ex.havoc_alloc()
        r = ex.fresh_val('unk')
        ex.known(r)
        ex.mark_unknown(r)
        ex.may_raise(['Exception'], 'unknown call %s' % what)
        return r

    def ucc_many(self, ex, f, note=''):
        """the callable f is invoked zero or more times (two-state invariants are transitive)"""
        if isinstance(f, St):
            ex.event('static_callback', f)
            if f == St('builtin', 'str'):
                return
            # a static callable applied to unknown elements: evaluate once on an arbitrary argument
            x = ex.fresh_val('cbarg')
            ex.known(x)
            ex.assume_elem(x)
            self.engine.calls.call_value(ex, f, [x], {})
            return
        if isinstance(f, Closure):
            if ex.branch(ex.fresh_bool('cb_called'), 'callback-called'):
                x = ex.fresh_val('cbarg')
                ex.known(x)
                ex.assume_elem(x)
                self.engine.calls.call_value(ex, f, [x], {})
            return
        if ex.branch(ex.fresh_bool('cb_called'), 'callback-called'):
            self.engine.calls.dynamic_call(ex, 'ucc', f, [Pack(None)], {})

    def args_vals(self, ex, args):
        out = []
        for a in args:
            if isinstance(a, Pack):
                raise Unsupported('*pack passed to a stub')
            out.append(a)
        return out

    # ------------------------------------------------------------------ isinstance
    def isinstance_formula(self, ex, v, t):
        if isinstance(t, tuple):
            return z3.Or([self.isinstance_formula(ex, v, x) for x in t])
        if not isinstance(t, St):
            raise Unsupported('isinstance with dynamic class')
        n = t.name
        if isinstance(v, (St, Closure, BoundMethod)):
            return z3.BoolVal(n in ('typing.Callable', 'Callable'))
        if t.kind == 'class':
            if n == 'Decimal':
                return L.is_Dec(v)       # custom subclass: not distinguished (stated assumption)
            return z3.And(L.is_Obj(v), self.engine.shapes.is_instance(Val.oref(v), n))
        table = {
            'str': L.is_Str(v), 'int': z3.Or(L.is_Int(v), L.is_Bool(v)), 'bool': L.is_Bool(v),
            'float': L.is_Float(v), 'decimal.Decimal': L.is_Dec(v), 'list': L.is_List(v),
            'dict': L.is_Dict(v), 'tuple': L.is_Tuple(v), 'slice': L.is_Slice(v), 'NoneType': L.is_None(v),
            'typing.Callable': z3.Or(L.is_Fun(v), L.is_Type(v)),
            'typing.Iterable': z3.Or(L.is_Str(v), L.is_List(v), L.is_Dict(v), L.is_Tuple(v),
                                     z3.And(L.is_Opaque(v), z3.Or(Val.okind(v) == L.OK['view'],
                                                                  Val.okind(v) == L.OK['iterator'],
                                                                  Val.okind(v) == L.OK['generator']))),
        }
        if n in table:
            return table[n]
        if t.kind in ('builtin', 'extclass', 'ext'):
            # a type none of the modelled values has: only an opaque host object can be an instance
            uf = L.UF('isinstance_' + n.replace('.', '_'), Val, B)
            return z3.And(z3.Or(L.is_Opaque(v), L.is_Obj(v)), uf(v))
        raise Unsupported('isinstance against %s' % n)

    # ------------------------------------------------------------------ static calls
    def call_static(self, ex, st, args, kwargs):
        name = st.name
        if st.kind == 'builtin':
            m = getattr(self, 'b_' + name, None)
            if m is not None and name not in ('min', 'max', 'list', 'dict') and any(isinstance(a, Pack) for a in args):
                # f(*xs) with an argument list of unknown length: the stub is written for explicit arguments
                ex.event('unmodelled_call', name + '(*args)')
                return self.unknown_call(ex, 'builtin %s(*args)' % name, [])
            if m is not None:
                return m(ex, self.args_vals(ex, args) if name not in ('min', 'max', 'list', 'dict') else args, kwargs)
            if name in L.EXC_PARENT:
                inst = L.OpaqueV(L.OK['instance'], ex.fresh_int('excinst'))
                ex.exc_instances[inst.get_id()] = L.EXC_ID[name]
                return inst
            ex.event('forbidden_call' if name in FORBIDDEN else 'unmodelled_call', name)
            return self.unknown_call(ex, 'builtin ' + name, [ex.to_val(a) for a in args if not isinstance(a, Pack)])
        m = getattr(self, 'x_' + name.replace('.', '_'), None)
        if m is not None:
            return m(ex, args, kwargs)
        if name.startswith('math.') and not any(isinstance(a, Pack) for a in args) and name[5:] in MATH_FLOAT | MATH_BOOL:
            vals = [ex.to_val(a) for a in args]
            for v in vals:
                if not ex.branch(L.is_numeric(v), 'math-num'):
                    ex.raise_('TypeError', 'must be real number')
            ex.event('stub', name, tuple(vals), {}, None)
            if name[5:] in MATH_BOOL:
                return L.BoolV(ex.fresh_bool(name[5:]))
            ex.may_raise(['ValueError', 'OverflowError'], 'math domain / range error')
            return L.FloatV(ex.fresh_int('flt_' + name[5:]))
        if name.startswith('operator.') and not any(isinstance(a, Pack) for a in args):
            r = self.operator_call(ex, name[9:], args, kwargs)
            if r is not None:
                return r
        if name.startswith('str.') and len(args) >= 1:
            recv = ex.to_val(args[0])
            if not ex.branch(L.is_Str(recv), 'unbound-str-method-recv'):
                ex.raise_('TypeError', 'descriptor requires a str')
            return self.method(ex, recv, name[4:], args[1:], kwargs)
        ex.event('unmodelled_call', name)
        return self.unknown_call(ex, name, [ex.to_val(a) for a in args if not isinstance(a, Pack)])

    # -- builtins -------------------------------------------------------------------
    def b_isinstance(self, ex, args, kwargs):
        v, t = args
        if isinstance(v, z3.ExprRef) or isinstance(v, (St, Closure, BoundMethod)):
            return L.BoolV(self.isinstance_formula(ex, v, t))
        raise Unsupported('isinstance of %r' % (v,))

    def b_getattr(self, ex, args, kwargs):
        if len(args) == 2 and isinstance(args[0], St) and args[0].kind == 'module' and isinstance(args[1], z3.ExprRef):
            lit = ex.lit_of(args[1])
            if lit is not None and lit.isidentifier() and not lit.startswith('_'):
                # getattr(module, 'NAME') with a constant name is module.NAME
                return self.engine.static_attr(ex, args[0], lit)
        ex.event('forbidden_call', 'getattr')
        return self.unknown_call(ex, 'builtin getattr', [ex.to_val(a) for a in args if not isinstance(a, Pack)])

    def b_hasattr(self, ex, args, kwargs):
        # a pure test: no attribute value is handed out
        v = ex.to_val(args[0])
        return L.BoolV(L.UF('py_hasattr', Val, Val, B)(v, ex.to_val(args[1])))

    def b_type(self, ex, args, kwargs):
        if len(args) == 1 and isinstance(args[0], z3.ExprRef) and L.is_true(L.simp(L.is_None(args[0]))):
            return St('builtin', 'NoneType')
        ex.event('forbidden_call', 'type')
        return self.unknown_call(ex, 'builtin type', [ex.to_val(a) for a in args if not isinstance(a, Pack)])

    def _all_any(self, ex, which, args):
        v = ex.to_val(args[0])
        n, arr = self.model.iter_snapshot(ex, v)
        r = L.UF('py_' + which, I, z3.ArraySort(I, Val), B)(n, arr)
        ex.assume(z3.Implies(n == 0, r == z3.BoolVal(which == 'all')))
        return L.BoolV(r)

    def b_all(self, ex, args, kwargs):
        return self._all_any(ex, 'all', args)

    def b_any(self, ex, args, kwargs):
        return self._all_any(ex, 'any', args)

    def b_len(self, ex, args, kwargs):
        (v,) = args
        v = ex.to_val(v)
        if ex.branch(z3.Or(L.is_List(v), L.is_Tuple(v)), 'len-seq'):
            n = ex.heap.llen(self.model.seq_ref_b(ex, v))
            ex.assume(n >= 0)
            return L.IntV(n)
        if ex.branch(L.is_Dict(v), 'len-dict'):
            n = ex.heap.dlen(L.simp(Val.dref(v)))
            ex.assume(n >= 0)
            return L.IntV(n)
        if ex.branch(L.is_Str(v), 'len-str'):
            return L.IntV(L.slen(Val.s(v)))
        if ex.branch(L.is_Obj(v), 'len-obj'):
            cls = ex.class_of(v)
            if cls == 'YaccProduction':
                return L.IntV(ex.heap.llen(Val.lref(ex.get_field(Val.oref(v), 'slice'))))
            return self.unknown_call(ex, 'len-on-object', [v])
        if ex.branch(L.is_Opaque(v), 'len-opaque'):
            return self.unknown_call(ex, 'len-on-opaque', [v])
        ex.raise_('TypeError', 'object has no len()')

    def b_str(self, ex, args, kwargs):
        if not args:
            return ex.str_lit('')
        v = ex.to_val(args[0])
        if ex.branch(L.is_Str(v), 'str-of-str'):
            return v
        if ex.branch(z3.Or(L.is_Opaque(v), L.is_Obj(v)), 'str-of-opaque'):
            ex.event('str_of_opaque', v)
            s = ex.fresh_str('str')
            return s
        s = L.str_of(v)
        ex.assume(L.slen(s) >= 1)
        # str() of a number is a text that Decimal() reads back as that number (A-STR-ROUNDTRIP)
        ex.assume(z3.Implies(z3.Or(L.is_Int(v), L.is_Bool(v)),
                             z3.And(L.UF('str_is_int', I, B)(s), L.UF('int_of_strid', I, I)(s) == self.model.num_value_int(v))))
        ex.assume(z3.Implies(L.is_Dec(v), z3.And(L.UF('str_is_dec', I, B)(s), L.UF('dec_of_strid', I, I)(s) == Val.d(v))))
        ex.assume(z3.Implies(L.is_Float(v), L.UF('str_is_float_repr', I, B)(s)))
        ex.event('prim', 'str_of', v, L.StrV(s))
        return L.StrV(s)

    def b_repr(self, ex, args, kwargs):
        return ex.fresh_str('repr')

    def b_bool(self, ex, args, kwargs):
        if not args:
            return L.FalseV
        return L.BoolV(ex.truthy(ex.to_val(args[0])))

    def b_int(self, ex, args, kwargs):
        if not args:
            return L.IntV(0)
        if len(args) > 1 or kwargs:
            ex.may_raise(['TypeError', 'ValueError'], 'int with base')
            return L.IntV(ex.fresh_int('parsed'))
        v = ex.to_val(args[0])
        ex.event('int_of', v)
        if ex.branch(L.is_Int(v), 'int-of-int'):
            return v
        if ex.branch(L.is_Bool(v), 'int-of-bool'):
            return L.IntV(self.model.num_int(ex, v))
        if ex.branch(L.is_Dec(v), 'int-of-dec'):
            d = Val.d(v)
            if not ex.branch(L.dec_finite(d), 'dec-finite'):
                ex.may_raise(['ValueError', 'OverflowError'], 'int of NaN/Infinity')
                raise PathEnd()
            i = L.UF('dec_trunc', I, I)(d)
            # the integer part has adj+1 digits (1 if |d| < 1): NOT bounded by the coefficient digits
            ex.assume(L.int_digits(i) == z3.If(L.dec_adj(d) < 0, 1, L.dec_adj(d) + 1))
            ex.assume(z3.Implies(L.dec_integral(d), L.dec_of_int(i) == d))
            return L.IntV(i)
        if ex.branch(L.is_Float(v), 'int-of-float'):
            ex.may_raise(['ValueError', 'OverflowError'], 'int of nan/inf')
            i = L.UF('flt_trunc', I, I)(Val.fl(v))
            ex.assume(L.int_digits(i) >= 1)
            ex.assume(L.int_digits(i) <= 309)
            return L.IntV(i)
        if ex.branch(L.is_Str(v), 'int-of-str'):
            ex.may_raise(['ValueError'], 'invalid literal for int()')
            i = L.UF('int_of_str', I, I)(Val.s(v))
            ex.assume(z3.And(L.int_digits(i) >= 1, L.int_digits(i) <= L.slen(Val.s(v))))
            return L.IntV(i)
        if ex.branch(z3.Or(L.is_Opaque(v), L.is_Obj(v)), 'int-of-opaque'):
            return self.unknown_call(ex, 'int-on-opaque', [v])
        ex.raise_('TypeError', 'int() argument must be a string or a number')

    def b_float(self, ex, args, kwargs):
        if not args:
            return L.FloatV(z3.IntVal(0))
        v = ex.to_val(args[0])
        ex.event('float_of', v)
        if ex.branch(L.is_Float(v), 'float-of-float'):
            return v
        if ex.branch(z3.Or(L.is_Int(v), L.is_Bool(v)), 'float-of-int'):
            ex.may_raise(['OverflowError'], 'int too large for float')
            return L.FloatV(L.UF('flt_of_int', I, I)(self.model.num_value_int(v)))
        if ex.branch(L.is_Dec(v), 'float-of-dec'):
            return L.FloatV(L.UF('flt_of_dec', I, I)(Val.d(v)))
        if ex.branch(L.is_Str(v), 'float-of-str'):
            ex.may_raise(['ValueError'], 'could not convert string to float')
            return L.FloatV(L.UF('flt_of_str', I, I)(Val.s(v)))
        if ex.branch(z3.Or(L.is_Opaque(v), L.is_Obj(v)), 'float-of-opaque'):
            return self.unknown_call(ex, 'float-on-opaque', [v])
        ex.raise_('TypeError', 'float() argument must be a string or a number')

    def b_list(self, ex, args, kwargs):
        if not args:
            return L.ListV(ex.new_list_from([]))
        if len(args) == 1 and isinstance(args[0], Pack):
            n = self.model.seq_len(ex, args[0].val)
            if ex.branch(n == 0, 'list-no-arg'):
                return L.ListV(ex.new_list_from([]))
            if not ex.branch(n == 1, 'list-one-arg'):
                ex.raise_('TypeError', 'list expected at most 1 argument')
            args = [self.model.seq_get(ex, args[0].val, z3.IntVal(0))]
        v = ex.to_val(args[0])
        n, arr = self.model.iter_snapshot(ex, v)
        r = ex.new_list(n, arr)
        ex.event('write', 'list', 'list()<%s>' % ex.last_snapshot_kind, r, z3.IntVal(0), n, ())
        ex.event('list_from', r, v)
        return L.ListV(r)

    def b_tuple(self, ex, args, kwargs):
        if not args:
            return L.TupleV(ex.new_list_from([], 'tuple'))
        v = ex.to_val(args[0])
        n, arr = self.model.iter_snapshot(ex, v)
        r = ex.new_list(n, arr, 'tuple')
        ex.event('write', 'list', 'tuple()<%s>' % ex.last_snapshot_kind, r, z3.IntVal(0), n, ())
        return L.TupleV(r)

    def b_dict(self, ex, args, kwargs):
        if kwargs:
            raise Unsupported('dict(**kw)')
        if len(args) == 1 and isinstance(args[0], Pack):
            n = self.model.seq_len(ex, args[0].val)
            if ex.branch(n == 0, 'dict-no-arg'):
                return L.DictV(ex.new_dict())
            if not ex.branch(n == 1, 'dict-one-arg'):
                ex.raise_('TypeError', 'dict expected at most 1 argument')
            args = [self.model.seq_get(ex, args[0].val, z3.IntVal(0))]
        if not args:
            return L.DictV(ex.new_dict())
        v = ex.to_val(args[0])
        if ex.branch(L.is_Dict(v), 'dict-of-dict'):
            sr = L.simp(Val.dref(v))
            h = ex.heap
            r = ex.new_dict()
            ex.dict_write('copy', r, h.dlen(sr), h.arr('DHAS')[sr], h.arr('DVAL')[sr], h.arr('DKEY')[sr])
            ex.event('dict_copy', r, sr)
            return L.DictV(r)
        if ex.branch(L.is_Str(v), 'dict-of-str'):
            if ex.branch(L.slen(Val.s(v)) == 0, 'dict-of-empty-str'):
                return L.DictV(ex.new_dict())
            ex.raise_('ValueError', 'dictionary update sequence element has length 1; 2 is required')
        n, arr = self.model.iter_snapshot(ex, v)
        ex.may_raise(['TypeError', 'ValueError'], 'dict() of non-pairs')
        m = ex.fresh_int('dlen')
        ex.assume(z3.And(m >= 0, m <= n))
        r = ex.new_dict()
        ex.dict_write('from-pairs<%s>' % ex.last_snapshot_kind, r, m, z3.Const(ex.fresh_name('dhas'), z3.ArraySort(Val, B)),
                      z3.Const(ex.fresh_name('dval'), z3.ArraySort(Val, Val)), None)
        ex.event('dict_from_pairs', r, v)
        return L.DictV(r)

    def _minmax(self, ex, which, args, kwargs):
        key = kwargs.get('key')
        if key is not None and not (isinstance(key, z3.ExprRef) and L.is_true(L.simp(L.is_None(key)))):
            self.ucc_many(ex, key)
        flat = []
        for a in args:
            if isinstance(a, Pack):
                if a.val is None:
                    raise Unsupported('min/max of an unknown pack')
                flat.append(('pack', ex.to_val(a.val)))
            else:
                flat.append(('v', ex.to_val(a)))
        ex.event('minmax', which, tuple(x for _, x in flat))
        if len(flat) == 1:
            kind, v = flat[0]
            if kind == 'v' or True:
                n, arr = self.model.iter_snapshot(ex, v) if kind == 'v' else (ex.heap.llen(self.model.seq_ref(v)), ex.heap.lelts(self.model.seq_ref(v)))
                if not ex.branch(n > 0, 'minmax-nonempty'):
                    if 'default' in kwargs:
                        return ex.to_val(kwargs['default'])
                    ex.raise_('ValueError', 'arg is an empty sequence')
                ex.may_raise(['TypeError'], 'comparison')
                j = ex.fresh_int('argm')
                ex.assume(z3.And(j >= 0, j < n))
                x = ex.known(z3.Select(arr, j))
                ex.assume_elem(x)
                ex.event('elem_of', x, v)
                return x
        if not flat:
            ex.raise_('TypeError', 'expected at least 1 argument')
        vals = [v for k, v in flat if k == 'v']
        if len(vals) != len(flat):
            raise Unsupported('min/max mixing pack and positional')
        ex.may_raise(['TypeError', 'ArithmeticError'], 'comparison')
        k = ex.choose(len(vals), 'argm')
        return vals[k]

    def b_min(self, ex, args, kwargs):
        return self._minmax(ex, 'min', args, kwargs)

    def b_max(self, ex, args, kwargs):
        return self._minmax(ex, 'max', args, kwargs)

    def b_sum(self, ex, args, kwargs):
        v = ex.to_val(args[0])
        n, arr = self.model.iter_snapshot(ex, v)
        ex.may_raise(['TypeError', 'ArithmeticError'], 'sum of non-numbers / decimal signal')
        r = ex.fresh_val('sum')
        ex.event('sum_of', v, n, arr, r)
        # start value 0 (int): the result is a number when all items are numbers
        j = ex.fresh_int('k')
        elem_num = L.UF('all_numeric', I, z3.ArraySort(I, Val), B)(n, arr)
        all_dec = L.UF('some_dec', I, z3.ArraySort(I, Val), B)(n, arr)
        ex.assume(z3.Implies(n == 0, r == L.IntV(0)))
        ex.assume(L.is_numeric(r))
        ex.assume(z3.Implies(L.is_Dec(r), z3.And(L.dec_digits(Val.d(r)) >= 1, L.dec_digits(Val.d(r)) <= 28)))
        ex.assume(z3.Implies(L.is_Int(r), L.int_digits(Val.i(r)) >= 1))
        ex.assume(z3.Not(L.is_Bool(r)))
        return r

    def b_sorted(self, ex, args, kwargs):
        v = ex.to_val(args[0])
        key = kwargs.get('key')
        n, arr = self.model.iter_snapshot(ex, v)
        if key is not None:
            kv = key
            if isinstance(kv, z3.ExprRef):
                if not ex.branch(L.is_None(kv), 'sorted-key-none'):
                    self.ucc_many(ex, kv)
            else:
                self.ucc_many(ex, kv)
        ex.may_raise(['TypeError', 'ArithmeticError'], 'comparison in sort')
        out = z3.Const(ex.fresh_name('sorted'), z3.ArraySort(I, Val))
        ex.note_array_elems(out, ('perm', arr))
        r = ex.new_list(n, out)
        ex.event('write', 'list', 'sorted()<%s>' % ex.last_snapshot_kind, r, z3.IntVal(0), n, ())
        ex.event('sorted_from', r, v)
        ex.event('stub', 'sorted', (v,), {k: (x if isinstance(x, z3.ExprRef) else x) for k, x in kwargs.items()}, L.ListV(r))
        return L.ListV(r)

    def b_reversed(self, ex, args, kwargs):
        v = ex.to_val(args[0])
        if ex.branch(z3.Or(L.is_List(v), L.is_Tuple(v)), 'reversed-seq'):
            r = self.model.seq_ref_b(ex, v)
            n = ex.heap.llen(r)
            ex.assume(z3.And(n >= 0, n <= F_CAP()))
            it = L.OpaqueV(L.OK['iterator'], ex.fresh_int('rev'))
            d = IterDesc('reversed', ref=r, n=n)
            heap_arr = ex.heap.lelts(r)
            j = z3.Int('j!rev')
            def snap_rev(e, n=n, a=heap_arr):
                e.last_snapshot_kind = 'seq'
                from .pymodel import def_array
                return n, def_array(e, lambda jj: z3.Select(a, n - 1 - jj), at=(z3.IntVal(0),))
            d.snap = snap_rev
            ex.iter_descs[it.get_id()] = d
            return it
        if ex.branch(L.is_Str(v), 'reversed-str'):
            it = L.OpaqueV(L.OK['iterator'], ex.fresh_int('rev'))
            n = L.slen(Val.s(v))
            d = IterDesc('str', sid=Val.s(v))
            arr = z3.Const(ex.fresh_name('chars'), z3.ArraySort(I, Val))
            ex.note_array_elems(arr, 'str1')
            d.snap = lambda e, n=n, a=arr: (n, a)
            d.of_str = Val.s(v)
            ex.iter_descs[it.get_id()] = d
            return it
        if ex.branch(L.is_Dict(v), 'reversed-dict'):
            it = L.OpaqueV(L.OK['iterator'], ex.fresh_int('rev'))
            r = L.simp(Val.dref(v))
            d = IterDesc('unknown')

            def snap(e, r=r):
                n = e.heap.dlen(r)
                e.assume(z3.And(n >= 0, n <= F_CAP()))
                out = z3.Const(e.fresh_name('revkeys'), z3.ArraySort(I, Val))
                e.note_array_elems(out, ('perm', e.heap.arr('DKEY')[r]))
                e.last_snapshot_kind = 'dict'
                return n, out
            d.snap = snap
            ex.iter_descs[it.get_id()] = d
            return it
        ex.raise_('TypeError', 'argument to reversed() must be a sequence')

    def b_enumerate(self, ex, args, kwargs):
        v = ex.to_val(args[0])
        inner = self.engine.loops.describe(ex, v)
        it = L.OpaqueV(L.OK['iterator'], ex.fresh_int('enum'))
        d = IterDesc('enumerate', inner=inner)
        src = v

        def snap(e, src=src):
            n, arr = self.model.iter_snapshot(e, src)
            out = z3.Const(e.fresh_name('enum'), z3.ArraySort(I, Val))
            e.note_array_elems(out, 'pairs')
            e.enum_pairs = getattr(e, 'enum_pairs', [])
            e.enum_pairs.append((out, n, arr))
            return n, out
        d.snap = snap
        ex.iter_descs[it.get_id()] = d
        return it

    def b_zip(self, ex, args, kwargs):
        if 'strict' in kwargs and not L.is_false(L.simp(ex.truthy(ex.to_val(kwargs['strict'])))):
            ex.may_raise(['ValueError'], 'zip() arguments differ in length (strict=True)')
        parts = [self.engine.loops.describe(ex, ex.to_val(a)) for a in args]
        it = L.OpaqueV(L.OK['iterator'], ex.fresh_int('zip'))
        ex.iter_descs[it.get_id()] = IterDesc('zip', parts=parts)
        return it

    def b_filter(self, ex, args, kwargs):
        f, v = args
        v = ex.to_val(v)
        ex.event('stub', 'filter', (f, v), {}, None)
        it = L.OpaqueV(L.OK['iterator'], ex.fresh_int('filter'))
        d = IterDesc('unknown')

        def snap(e, f=f, v=v):
            n, arr = self.model.iter_snapshot(e, v)
            if isinstance(f, z3.ExprRef) and e.branch(L.is_None(f), 'filter-none'):
                pass
            else:
                self.ucc_many(e, f)
                # the source may have been changed by the callback; its length is re-read
                n2, arr = self.model.iter_snapshot(e, v)
                n = n2
            m = e.fresh_int('flen')
            e.assume(z3.And(m >= 0, m <= n))
            out = z3.Const(e.fresh_name('filtered'), z3.ArraySort(I, Val))
            e.note_array_elems(out, ('from-array', arr))
            return m, out
        d.snap = snap
        ex.iter_descs[it.get_id()] = d
        return it

    def b_map(self, ex, args, kwargs):
        f, v = args[0], ex.to_val(args[1])
        it = L.OpaqueV(L.OK['iterator'], ex.fresh_int('map'))
        d = IterDesc('unknown')

        def snap(e, f=f, v=v):
            n, arr = self.model.iter_snapshot(e, v)
            out = z3.Const(e.fresh_name('mapped'), z3.ArraySort(I, Val))
            if isinstance(f, St) and f == St('builtin', 'str'):
                e.note_array_elems(out, 'strs')
                e.mapped_str = getattr(e, 'mapped_str', [])
                e.mapped_str.append((out, n, arr))
                return n, out
            self.ucc_many(e, f)
            n2, arr = self.model.iter_snapshot(e, v)
            e.note_array_elems(out, 'ucc-results')
            return n2, out
        d.snap = snap
        ex.iter_descs[it.get_id()] = d
        return it

    def b_round(self, ex, args, kwargs):
        v = ex.to_val(args[0])
        nd = ex.to_val(args[1]) if len(args) > 1 else L.NoneV
        ex.event('round_of', v, nd)
        if not ex.branch(z3.Or(L.is_None(nd), self.model.index_like(nd)), 'round-nd-int'):
            ex.raise_('TypeError', 'ndigits must be an integer')
        if ex.branch(L.is_Dec(v), 'round-dec'):
            d = Val.d(v)
            if ex.branch(L.is_None(nd), 'round-nd-none'):
                ex.may_raise(['ValueError', 'OverflowError'], 'round of NaN/Infinity')
                i = L.UF('dec_round_int', I, I)(d)
                ex.assume(z3.And(L.int_digits(i) >= 1,
                                 L.int_digits(i) <= z3.If(L.dec_adj(d) < 0, 1, L.dec_adj(d) + 2)))
                return L.IntV(i)
            ex.may_raise(['ArithmeticError'], 'quantize InvalidOperation')
            q = L.UF('dec_quantize', I, I, I)(d, self.model.num_value_int(nd))
            ex.assume(z3.And(L.dec_digits(q) >= 1, L.dec_digits(q) <= 28))
            return L.DecV(q)
        if ex.branch(L.is_Float(v), 'round-float'):
            if ex.branch(L.is_None(nd), 'round-nd-none'):
                ex.may_raise(['ValueError', 'OverflowError'], 'round of nan/inf')
                i = L.UF('flt_round_int', I, I)(Val.fl(v))
                ex.assume(z3.And(L.int_digits(i) >= 1, L.int_digits(i) <= 309))
                return L.IntV(i)
            return L.FloatV(L.UF('flt_round', I, I, I)(Val.fl(v), self.model.num_value_int(nd)))
        if ex.branch(z3.Or(L.is_Int(v), L.is_Bool(v)), 'round-int'):
            ex.small_int_axioms(self.model.num_value_int(v))
            i = L.UF('int_round', I, Val, I)(self.model.num_value_int(v), nd)
            ex.assume(z3.And(L.int_digits(i) >= 1, L.int_digits(i) <= L.int_digits(self.model.num_value_int(v)) + 1))
            return L.IntV(i)
        if ex.branch(z3.Or(L.is_Opaque(v), L.is_Obj(v)), 'round-opaque'):
            return self.unknown_call(ex, 'round-on-opaque', [v])
        ex.raise_('TypeError', "type doesn't define __round__")

    def b_abs(self, ex, args, kwargs):
        v = ex.to_val(args[0])
        ex.event('abs_of', v)
        if ex.branch(z3.Or(L.is_Int(v), L.is_Bool(v)), 'abs-int'):
            i = self.model.num_int(ex, v)
            r = z3.If(i < 0, -i, i)
            ex.assume(L.int_digits(r) == L.int_digits(i))
            return L.IntV(r)
        if ex.branch(L.is_Dec(v), 'abs-dec'):
            d = L.UF('dec_abs', I, I)(Val.d(v))
            ex.assume(z3.And(L.dec_digits(d) >= 1, L.dec_digits(d) <= 28))
            ex.may_raise(['ArithmeticError'], 'decimal signal')
            return L.DecV(d)
        if ex.branch(L.is_Float(v), 'abs-float'):
            return L.FloatV(L.UF('flt_abs', I, I)(Val.fl(v)))
        if ex.branch(z3.Or(L.is_Opaque(v), L.is_Obj(v)), 'abs-opaque'):
            return self.unknown_call(ex, 'abs-on-opaque', [v])
        ex.raise_('TypeError', 'bad operand type for abs()')

    def b_slice(self, ex, args, kwargs):
        vals = [ex.to_val(a) for a in args]
        if len(vals) == 1:
            return self.model.make_slice(ex, L.NoneV, vals[0], L.NoneV)
        if len(vals) == 2:
            return self.model.make_slice(ex, vals[0], vals[1], L.NoneV)
        if len(vals) == 3:
            return self.model.make_slice(ex, vals[0], vals[1], vals[2])
        ex.raise_('TypeError', 'slice expected at most 3 arguments')

    def b_range(self, ex, args, kwargs):
        vals = [ex.to_val(a) for a in args]
        for v in vals:
            if not ex.branch(self.model.index_like(v), 'range-int'):
                ex.raise_('TypeError', 'range() integer argument expected')
        ints = [self.model.num_value_int(v) for v in vals]
        if len(ints) == 1:
            return IterDesc('range', start=z3.IntVal(0), stop=ints[0], step=z3.IntVal(1))
        if len(ints) == 2:
            return IterDesc('range', start=ints[0], stop=ints[1], step=z3.IntVal(1))
        st = L.simp(ints[2])
        if not z3.is_int_value(st) or st.as_long() == 0:
            raise Unsupported('range with a non-constant step')
        if st.as_long() < 0:
            # counting down: the mirror image of an upward range (start, start+step, ... while > stop)
            return IterDesc('range', start=ints[0], stop=ints[1], step=st, down=True)
        return IterDesc('range', start=ints[0], stop=ints[1], step=st)

    # -- external functions ---------------------------------------------------------------
    # the operator module: the function forms of the operators the model already has
    _OPERATOR = {'add': ('Add', False), 'sub': ('Sub', False), 'mul': ('Mult', False), 'truediv': ('Div', False),
                 'pow': ('Pow', False), 'mod': ('Mod', False), 'floordiv': ('FloorDiv', False),
                 'iadd': ('Add', True), 'isub': ('Sub', True), 'imul': ('Mult', True), 'itruediv': ('Div', True),
                 'ipow': ('Pow', True), 'imod': ('Mod', True), 'ifloordiv': ('FloorDiv', True)}
    _OPERATOR_CMP = {'eq': 'Eq', 'ne': 'NotEq', 'lt': 'Lt', 'le': 'LtE', 'gt': 'Gt', 'ge': 'GtE'}

    def operator_call(self, ex, name, args, kwargs):
        vals = [ex.to_val(a) for a in self.args_vals(ex, args)]
        if name in self._OPERATOR and len(vals) == 2 and not kwargs:
            opname, inplace = self._OPERATOR[name]
            return self.model.binop(ex, opname, vals[0], vals[1], inplace=inplace)
        if name in self._OPERATOR_CMP and len(vals) == 2 and not kwargs:
            return self.model.compare(ex, self._OPERATOR_CMP[name], vals[0], vals[1])
        if name == 'neg' and len(vals) == 1:
            return self.model.unary_neg(ex, vals[0])
        if name == 'pos' and len(vals) == 1:
            return self.model.unary_pos(ex, vals[0])
        if name in ('not_', 'truth') and len(vals) == 1:
            t = ex.truthy(vals[0])
            return L.BoolV(z3.Not(t) if name == 'not_' else t)
        if name == 'getitem' and len(vals) == 2:
            return self.model.getitem(ex, vals[0], vals[1])
        if name == 'contains' and len(vals) == 2:
            return L.BoolV(self.model.contains(ex, vals[0], vals[1]))
        return None

    def x_typing_cast(self, ex, args, kwargs):
        return args[1]

    def _decimal(self, ex, args, kwargs):
        if not args:
            return L.DecV(L.dec_of_int(z3.IntVal(0)))
        v = ex.to_val(args[0])
        if ex.branch(L.is_Dec(v), 'Decimal-of-dec'):
            return v
        if ex.branch(z3.Or(L.is_Int(v), L.is_Bool(v)), 'Decimal-of-int'):
            i = self.model.num_int(ex, v)
            d = L.dec_of_int(i)
            ex.assume(L.dec_digits(d) == L.int_digits(i))      # exact conversion, no rounding
            ex.assume(L.int_digits(i) >= 1)
            ex.assume(L.dec_integral(d))
            ex.assume(L.dec_finite(d))
            return L.DecV(d)
        if ex.branch(L.is_Str(v), 'Decimal-of-str'):
            ex.may_raise(['ArithmeticError'], 'InvalidOperation: invalid literal')
            sid = Val.s(v)
            d = L.dec_of_str(sid)
            ex.assume(z3.And(L.dec_digits(d) >= 1, L.dec_digits(d) <= z3.If(L.slen(sid) < 1, 1, L.slen(sid))))
            i = L.UF('int_of_strid', I, I)(sid)
            ex.assume(z3.Implies(L.UF('str_is_int', I, B)(sid),
                                 z3.And(d == L.dec_of_int(i), L.dec_digits(d) == L.int_digits(i), L.dec_integral(d), L.dec_finite(d))))
            ex.assume(z3.Implies(L.UF('str_is_dec', I, B)(sid), d == L.UF('dec_of_strid', I, I)(sid)))
            # repr() of a float has at most 17 significant digits
            ex.assume(z3.Implies(L.UF('str_is_float_repr', I, B)(sid), L.dec_digits(d) <= 17))
            ex.use_assumption('A-STR-ROUNDTRIP: Decimal(str(x)) == x for ints and finite Decimals (construction is exact)')
            return L.DecV(d)
        if ex.branch(L.is_Float(v), 'Decimal-of-float'):
            d = L.dec_of_flt(Val.fl(v))
            ex.assume(z3.And(L.dec_digits(d) >= 1, L.dec_digits(d) <= 767))
            ex.assume(L.dec_q(d) == L.UF('flt_q', I, z3.RealSort())(Val.fl(v)))
            return L.DecV(d)
        if ex.branch(L.is_Tuple(v), 'Decimal-of-tuple'):
            ex.may_raise(['ValueError', 'TypeError'], 'bad tuple')
            d = ex.fresh_int('dec')
            ex.assume(L.dec_digits(d) >= 1)
            return L.DecV(d)
        if ex.branch(z3.Or(L.is_Opaque(v), L.is_Obj(v)), 'Decimal-of-opaque'):
            return self.unknown_call(ex, 'Decimal-on-opaque', [v])
        ex.raise_('TypeError', 'conversion to Decimal is not supported')

    def x_decimal_Decimal(self, ex, args, kwargs):
        r = self._decimal(ex, args, kwargs)
        if args:
            ex.event('prim', 'decimal_of', ex.to_val(args[0]), r)
        return r

    def x_copy_deepcopy(self, ex, args, kwargs):
        v = ex.to_val(args[0])
        memo = len(args) > 1 or 'memo' in kwargs
        ex.event('deepcopy_call', v, memo)
        if ex.branch(z3.Or(L.is_scalar(v), L.is_Fun(v), L.is_Ellipsis(v), L.is_Type(v)), 'deepcopy-atomic'):
            ex.event('deepcopy', v, v, memo)
            return v
        if ex.branch(z3.Or(L.is_Opaque(v), L.is_Obj(v)), 'deepcopy-opaque'):
            r = self.unknown_call(ex, 'deepcopy-of-object', [v])
            ex.event('deepcopy', v, r, True)
            return r
        ex.may_raise(['TypeError', 'RecursionError'] if 'RecursionError' in L.EXC_ID else ['TypeError'], 'deepcopy')
        h = ex.heap
        if ex.branch(z3.Or(L.is_List(v), L.is_Tuple(v)), 'deepcopy-seq'):
            r0 = self.model.seq_ref_b(ex, v)
            arr = z3.Const(ex.fresh_name('deepelts'), z3.ArraySort(I, Val))
            ex.note_array_elems(arr, ('deepcopy', r0))
            r = ex.new_list(h.llen(r0), arr)
            res = z3.If(L.is_List(v), L.ListV(r), L.TupleV(r))
        elif ex.branch(L.is_Dict(v), 'deepcopy-dict'):
            r0 = L.simp(Val.dref(v))
            r = ex.new_dict(h.dlen(r0), h.arr('DHAS')[r0],
                            z3.Const(ex.fresh_name('deepvals'), z3.ArraySort(Val, Val)), h.arr('DKEY')[r0])
            res = L.DictV(r)
        else:   # slice
            r0 = L.simp(Val.slref(v))
            return v
        ex.event('deepcopy', v, res, memo)
        ex.deepcopies.append((L.simp(res), r0, memo))
        return L.simp(res)

    def x_copy_copy(self, ex, args, kwargs):
        v = ex.to_val(args[0])
        ex.event('copy_call', v)
        if ex.branch(z3.Or(L.is_scalar(v), L.is_Fun(v), L.is_Tuple(v), L.is_Slice(v)), 'copy-atomic'):
            return v
        h = ex.heap
        if ex.branch(L.is_List(v), 'copy-list'):
            r0 = L.simp(Val.lref(v))
            r = ex.new_list(h.llen(r0), h.lelts(r0))
            ex.event('write', 'list', 'copy', r, z3.IntVal(0), h.llen(r0), ())
            ex.event('shallow_copy', r, r0)
            return L.ListV(r)
        if ex.branch(L.is_Dict(v), 'copy-dict'):
            r0 = L.simp(Val.dref(v))
            r = ex.new_dict()
            ex.dict_write('copy', r, h.dlen(r0), h.arr('DHAS')[r0], h.arr('DVAL')[r0], h.arr('DKEY')[r0])
            return L.DictV(r)
        return self.unknown_call(ex, 'copy-of-object', [v])

    def x_functools_reduce(self, ex, args, kwargs):
        f = args[0]
        v = ex.to_val(args[1])
        ex.event('stub', 'reduce', (f, v) + tuple(args[2:]), {}, None)
        n, arr = self.model.iter_snapshot(ex, v)
        if len(args) < 3:
            if not ex.branch(n > 0, 'reduce-nonempty'):
                ex.raise_('TypeError', 'reduce() of empty iterable with no initial value')
        if ex.branch(n <= 1, 'reduce-single') and len(args) < 3:
            x = ex.known(z3.Select(arr, 0))
            ex.assume_elem(x)
            return x
        if isinstance(f, (St, Closure)):
            # a function of the package itself: not a host callable - one arbitrary step of the fold is executed
            # (first step: the given initial value; a later step: whatever an earlier step returned)
            if len(args) >= 3 and ex.branch(ex.fresh_bool('first_step'), 'reduce-first-step'):
                acc = ex.to_val(args[2])
            else:
                acc = ex.fresh_val('acc')
                ex.known(acc)
                ex.assume_elem(acc)
            x = ex.fresh_val('elem')
            ex.known(x)
            ex.assume_elem(x)
            return self.engine.calls.call_value(ex, f, [acc, x], {})
        return self.engine.calls.dynamic_call(ex, 'ucc', f, [Pack(None)], {})

    def _floor_ceil(self, ex, which, args, kwargs):
        if len(args) == 1 and isinstance(args[0], Pack):
            seq = args[0].val
            n = self.model.seq_len(ex, seq)
            if not ex.branch(n == 1, 'floor-one-arg'):
                ex.raise_('TypeError', 'takes exactly one argument')
            v = self.model.seq_get(ex, seq, z3.IntVal(0))
        elif len(args) == 1:
            v = ex.to_val(args[0])
        else:
            ex.raise_('TypeError', 'takes exactly one argument')
        ex.event('floorceil_of', which, v)
        if ex.branch(z3.Or(L.is_Int(v), L.is_Bool(v)), 'floor-int'):
            return L.IntV(self.model.num_int(ex, v))
        if ex.branch(L.is_Dec(v), 'floor-dec'):
            d = Val.d(v)
            ex.may_raise(['ValueError', 'OverflowError'], 'floor of NaN/Infinity')
            i = L.UF('dec_' + which, I, I)(d)
            ex.assume(z3.And(L.int_digits(i) >= 1, L.int_digits(i) <= z3.If(L.dec_adj(d) < 0, 1, L.dec_adj(d) + 2)))
            ex.assume(z3.Implies(L.dec_adj(d) >= 0, L.int_digits(i) >= L.dec_adj(d) + 1))
            return L.IntV(i)
        if ex.branch(L.is_Float(v), 'floor-float'):
            ex.may_raise(['ValueError', 'OverflowError'], 'floor of nan/inf')
            i = L.UF('flt_' + which, I, I)(Val.fl(v))
            ex.assume(z3.And(L.int_digits(i) >= 1, L.int_digits(i) <= 309))
            return L.IntV(i)
        if ex.branch(z3.Or(L.is_Opaque(v), L.is_Obj(v)), 'floor-opaque'):
            return self.unknown_call(ex, 'floor-on-opaque', [v])
        ex.raise_('TypeError', 'must be real number')

    def x_math_floor(self, ex, args, kwargs):
        return self._floor_ceil(ex, 'floor', args, kwargs)

    def x_math_ceil(self, ex, args, kwargs):
        return self._floor_ceil(ex, 'ceil', args, kwargs)

    # random -------------------------------------------------------------------------------
    def x_random_random(self, ex, args, kwargs):
        f = ex.fresh_int('rnd')
        q = L.UF('flt_q', I, z3.RealSort())(f)
        ex.assume(z3.And(q >= 0, q < 1))
        ex.event('random', 'random', f)
        return L.FloatV(f)

    def x_random_randint(self, ex, args, kwargs):
        a, b = ex.to_val(args[0]), ex.to_val(args[1])
        ex.event('random', 'randint', a, b)
        for x in (a, b):
            if not ex.branch(z3.Or(L.is_Int(x), L.is_Bool(x)), 'randint-int-arg'):
                ex.raise_('TypeError', 'randint: non-integer argument (CPython >= 3.12)')
        ia, ib = self.model.num_value_int(a), self.model.num_value_int(b)
        if not ex.branch(ia <= ib, 'randint-nonempty'):
            ex.raise_('ValueError', 'empty range for randrange')
        r = ex.fresh_int('rnd')
        ex.assume(z3.And(ia <= r, r <= ib))
        ex.assume(L.int_digits(r) >= 1)
        return L.IntV(r)

    def x_random_randrange(self, ex, args, kwargs):
        vals = [ex.to_val(a) for a in args]
        for x in vals:
            if not ex.branch(z3.Or(L.is_Int(x), L.is_Bool(x)), 'randrange-int-arg'):
                ex.raise_('TypeError', 'randrange: non-integer argument')
        ints = [self.model.num_value_int(x) for x in vals]
        lo, hi = (z3.IntVal(0), ints[0]) if len(ints) == 1 else (ints[0], ints[1])
        if not ex.branch(lo < hi, 'randrange-nonempty'):
            ex.raise_('ValueError', 'empty range for randrange')
        r = ex.fresh_int('rnd')
        ex.assume(z3.And(lo <= r, r < hi))
        return L.IntV(r)

    def x_random_choice(self, ex, args, kwargs):
        v = ex.to_val(args[0])
        ex.event('random', 'choice', v)
        if ex.branch(z3.Or(L.is_List(v), L.is_Tuple(v)), 'choice-seq'):
            r = self.model.seq_ref_b(ex, v)
            n = ex.heap.llen(r)
            if not ex.branch(n > 0, 'choice-nonempty'):
                ex.raise_('IndexError', 'Cannot choose from an empty sequence')
            j = ex.fresh_int('pick')
            ex.assume(z3.And(j >= 0, j < n))
            x = ex.known(ex.heap.lelt(r, j))
            ex.assume_elem(x)
            ex.event('elem_of', x, v)
            ex.picks.append((x, r, j))
            return x
        if ex.branch(L.is_Str(v), 'choice-str'):
            if not ex.branch(L.slen(Val.s(v)) > 0, 'choice-nonempty'):
                ex.raise_('IndexError', 'Cannot choose from an empty sequence')
            s = ex.fresh_str('ch')
            return s
        ex.may_raise(['TypeError', 'KeyError', 'IndexError'], 'choice of non-sequence')
        return self.unknown_call(ex, 'random.choice-on-other', [v])

    def x_random_shuffle(self, ex, args, kwargs):
        v = ex.to_val(args[0])
        ex.event('random', 'shuffle', v)
        if ex.branch(L.is_List(v), 'shuffle-list'):
            r = L.simp(Val.lref(v))
            n = ex.heap.llen(r)
            arr = z3.Const(ex.fresh_name('shuffled'), z3.ArraySort(I, Val))
            ex.note_array_elems(arr, ('perm', ex.heap.lelts(r)))
            ex.perms.append((arr, ex.heap.lelts(r), n))
            ex.list_write('shuffle', r, n, arr)
            return L.NoneV
        if ex.branch(z3.Or(L.is_Opaque(v), L.is_Obj(v)), 'shuffle-opaque'):
            return self.unknown_call(ex, 'random.shuffle-on-other', [v])
        if ex.branch(z3.Or(z3.And(L.is_Dict(v), ex.heap.dlen(Val.dref(v)) <= 1),
                           z3.And(L.is_Tuple(v), ex.heap.llen(Val.tref(v)) <= 1),
                           z3.And(L.is_Str(v), L.slen(Val.s(v)) <= 1)), 'shuffle-trivial'):
            # nothing to swap: returns without touching the argument
            return L.NoneV
        k = ex.choose(3, 'shuffle-exc')
        ex.raise_(['TypeError', 'KeyError', 'IndexError'][k], 'shuffle of a non-list')

    # regex ---------------------------------------------------------------------------------
    def _regex_call(self, ex, fn, args, kwargs):
        vals = [ex.to_val(a) for a in args]
        kw = {k: ex.to_val(v) for k, v in kwargs.items()}
        ex.event('regex_call', fn, tuple(vals), kw)
        ex.may_raise(['TimeoutError', 'RegexError', 'TypeError', 'ValueError'], 'regex')
        return vals, kw

    def x_regex_search(self, ex, args, kwargs):
        vals, kw = self._regex_call(ex, 'search', args, kwargs)
        if ex.branch(ex.fresh_bool('nomatch'), 'regex-nomatch'):
            return L.NoneV
        m = L.OpaqueV(L.OK['match'], ex.fresh_int('match'))
        return m

    x_regex_match = x_regex_search
    x_regex_fullmatch = x_regex_search

    def x_regex_findall(self, ex, args, kwargs):
        vals, kw = self._regex_call(ex, 'findall', args, kwargs)
        n = ex.fresh_int('nmatch')
        subj = vals[1] if len(vals) > 1 else None
        ex.assume(n >= 0)
        if subj is not None:
            ex.assume(z3.Implies(L.is_Str(subj), n <= L.slen(Val.s(subj)) + 1))
        arr = z3.Const(ex.fresh_name('found'), z3.ArraySort(I, Val))
        ex.note_array_elems(arr, 'strs-or-str-tuples')
        r = ex.new_list(n, arr)
        ex.event('write', 'list', 'findall', r, z3.IntVal(0), n, ())
        ex.event('list_from_str', r, subj)
        return L.ListV(r)

    def x_regex_compile(self, ex, args, kwargs):
        vals = [ex.to_val(a) for a in args]
        kw = {k: ex.to_val(v) for k, v in kwargs.items()}
        ex.event('regex_compile', tuple(vals), kw)
        ex.may_raise(['RegexError', 'TypeError', 'ValueError'], 'regex.compile')
        p = L.OpaqueV(L.OK['pattern'], ex.fresh_int('pattern'))
        ex.compiled = getattr(ex, 'compiled', {})
        ex.compiled[p.get_id()] = vals[0] if vals else None
        return p

    # PLY / pathlib (SqParser.__init__ only) --------------------------------------------------
    def x_pathlib_Path(self, ex, args, kwargs):
        return L.OpaqueV(L.OK['path'], ex.fresh_int('path'))

    # ------------------------------------------------------------------ methods on values
    def method(self, ex, recv, name, args, kwargs):
        recv = ex.to_val(recv)
        args = self.args_vals(ex, args)
        if ex.branch(L.is_List(recv), 'm-list'):
            m = getattr(self, 'list_' + name, None)
            if m is None:
                return self.unmodelled_method(ex, recv, 'list', name, args)
            return m(ex, recv, L.simp(Val.lref(recv)), args, kwargs)
        if ex.branch(L.is_Dict(recv), 'm-dict'):
            m = getattr(self, 'dict_' + name, None)
            if m is None:
                return self.unmodelled_method(ex, recv, 'dict', name, args)
            return m(ex, recv, L.simp(Val.dref(recv)), args, kwargs)
        if ex.branch(L.is_Str(recv), 'm-str'):
            lit = ex.lit_of(recv)
            if lit is not None and name in ('upper', 'lower', 'strip', 'lstrip', 'rstrip', 'capitalize', 'title', 'swapcase', 'casefold',
                                            'startswith', 'endswith', 'isdigit', 'isalpha', 'isupper', 'islower', 'replace') and not kwargs:
                # a method of a string LITERAL applied to literals: the constant it denotes
                lits = [ex.lit_of(ex.to_val(a)) if isinstance(a, z3.ExprRef) else None for a in args]
                if all(x is not None for x in lits):
                    try:
                        r = getattr(lit, name)(*lits)
                    except Exception:
                        r = None
                    if isinstance(r, str):
                        return ex.str_lit(r)
                    if isinstance(r, bool):
                        return L.BoolV(z3.BoolVal(r))
            m = getattr(self, 'str_' + name, None)
            if m is None:
                if name in STR_PURE:
                    return self.str_pure_method(ex, recv, name, args, kwargs)
                return self.unmodelled_method(ex, recv, 'str', name, args)
            return m(ex, recv, args, kwargs)
        if ex.branch(L.is_Tuple(recv), 'm-tuple'):
            if name in ('index', 'count'):
                return getattr(self, 'list_' + name)(ex, recv, L.simp(Val.tref(recv)), args, kwargs)
            return self.unmodelled_method(ex, recv, 'tuple', name, args)
        if ex.branch(L.is_Opaque(recv), 'm-opaque'):
            if ex.branch(Val.okind(recv) == L.OK['match'], 'm-match'):
                if name == 'group':
                    ex.may_raise(['IndexError'], 'no such group')
                    if ex.branch(ex.fresh_bool('grp_none'), 'group-unmatched'):
                        return L.NoneV
                    return ex.fresh_str('grp')
                if name == 'groups':
                    n = ex.fresh_int('ngroups')
                    ex.assume(n >= 0)
                    arr = z3.Const(ex.fresh_name('groups'), z3.ArraySort(I, Val))
                    ex.note_array_elems(arr, 'strs-or-none')
                    ex.assume(n <= 100000)
                    ex.use_assumption('A-REGEX-GROUPS: a pattern has at most 100000 capture groups')
                    r = ex.new_list(n, arr, 'tuple')
                    return L.TupleV(r)
            if ex.branch(Val.okind(recv) == L.OK['pattern'], 'm-pattern'):
                pat = getattr(ex, 'compiled', {}).get(L.simp(recv).get_id())
                if name in ('search', 'match', 'fullmatch') and pat is not None:
                    return self.x_regex_search(ex, [pat] + list(args), kwargs)
                if name == 'findall' and pat is not None:
                    return self.x_regex_findall(ex, [pat] + list(args), kwargs)
            return self.unknown_call(ex, 'method %s on opaque' % name, [recv] + [ex.to_val(a) for a in args])
        if ex.branch(L.is_Obj(recv), 'm-obj'):
            return self.unknown_call(ex, 'method %s of an object of unknown class' % name, [recv] + [ex.to_val(a) for a in args])
        if ex.branch(L.is_Dec(recv), 'm-dec'):
            if name in DEC_PURE:
                kind = DEC_PURE[name]
                ex.event('stub', 'Decimal.' + name, (recv,) + tuple(args), {}, None)
                if kind == 'dec':
                    # context arithmetic: at most 28 significant digits, or a signal (A-DEC-CTX)
                    ex.may_raise(['ArithmeticError'], 'decimal signal')
                    d = ex.fresh_int('dec_' + name)
                    ex.assume(z3.And(L.dec_digits(d) >= 1, L.dec_digits(d) <= 28))
                    return L.DecV(d)
                if kind == 'bool':
                    return L.BoolV(L.UF('dec_' + name, I, B)(Val.d(recv)))
                if kind == 'int':
                    return L.IntV(L.UF('dec_' + name, I, I)(Val.d(recv)))
            return self.unmodelled_method(ex, recv, 'Decimal', name, args)
        ex.raise_('AttributeError', 'no attribute %s' % name)

    def unmodelled_method(self, ex, recv, tag, name, args):
        import builtins
        import decimal
        cls = {'list': list, 'dict': dict, 'str': str, 'tuple': tuple, 'Decimal': decimal.Decimal}[tag]
        if not hasattr(cls, name):
            ex.raise_('AttributeError', '%s has no attribute %s' % (tag, name))
        ex.event('unmodelled_call', '%s.%s' % (tag, name))
        if tag in ('list', 'dict'):
            # it may mutate the receiver in an unknown way
            r = L.simp(Val.lref(recv) if tag == 'list' else Val.dref(recv))
            if tag == 'list':
                ex.list_write('unknown-method', r, ex.fresh_int('newlen'),
                              z3.Const(ex.fresh_name('elts'), z3.ArraySort(I, Val)))
            else:
                ex.dict_write('unknown-method', r, ex.fresh_int('newlen'),
                              z3.Const(ex.fresh_name('dhas'), z3.ArraySort(Val, B)),
                              z3.Const(ex.fresh_name('dval'), z3.ArraySort(Val, Val)), None)
        return self.unknown_call(ex, '%s.%s' % (tag, name), [recv] + [ex.to_val(a) for a in args])

    def str_pure_method(self, ex, recv, name, args, kwargs):
        """the side-effect free str methods: result kind and length bounds only"""
        kind, nargs = STR_PURE[name]
        vals = [ex.to_val(a) for a in args]
        if len(vals) > nargs[1] or len(vals) < nargs[0] or kwargs:
            ex.raise_('TypeError', '%s() takes %s arguments' % (name, nargs))
        ex.may_raise(['TypeError', 'ValueError'], 'bad argument to str.%s' % name)
        n = L.slen(Val.s(recv))
        if kind == 'bool':
            return L.BoolV(L.UF('str_%s' % name, I, B)(Val.s(recv)))
        if kind == 'int':
            j = ex.fresh_int(name)
            ex.assume(z3.And(j >= -1, j <= n + 1))
            return L.IntV(j)
        if kind == 'str':
            return ex.fresh_str(name)
        if kind == 'strlist':
            m = ex.fresh_int('nparts')
            ex.assume(z3.And(m >= 0, m <= n + 1))
            arr = z3.Const(ex.fresh_name('parts'), z3.ArraySort(I, Val))
            ex.note_array_elems(arr, 'strs')
            r = ex.new_list(m, arr)
            ex.event('write', 'list', 'split', r, z3.IntVal(0), m, ())
            ex.event('list_from_str', r, recv)
            return L.ListV(r)
        if kind == 'strtuple3':
            r = ex.new_list_from([ex.fresh_str('p0'), ex.fresh_str('p1'), ex.fresh_str('p2')], 'tuple')
            return L.TupleV(r)
        raise Unsupported(kind)

    # list methods
    def list_append(self, ex, recv, r, args, kwargs):
        (v,) = [ex.to_val(a) for a in args]
        n = ex.heap.llen(r)
        ex.list_write('append', r, n + 1, z3.Store(ex.heap.lelts(r), n, v), stored=(v,))
        return L.NoneV

    def list_insert(self, ex, recv, r, args, kwargs):
        i, v = [ex.to_val(a) for a in args]
        if not ex.branch(self.model.index_like(i), 'insert-int'):
            ex.raise_('TypeError', 'integer argument expected')
        n = ex.heap.llen(r)
        ex.assume(n >= 0)
        k = self.model.num_value_int(i)
        pos = z3.If(k < 0, z3.If(k + n < 0, 0, k + n), z3.If(k > n, n, k))
        from .pymodel import shifted_insert
        ex.list_write('insert', r, n + 1, shifted_insert(ex, ex.heap.lelts(r), pos, v), stored=(v,))
        ex.last_insert = (r, pos, v)
        return L.NoneV

    def list_pop(self, ex, recv, r, args, kwargs):
        n = ex.heap.llen(r)
        ex.assume(n >= 0)
        from .pymodel import shifted_delete
        if args:
            i = ex.to_val(args[0])
            if not ex.branch(self.model.index_like(i), 'pop-int'):
                ex.raise_('TypeError', 'integer argument expected')
            k = self.model.num_value_int(i)
            j = self.model.norm_index(k, n)
        else:
            j = n - 1
        if not ex.branch(z3.And(j >= 0, j < n), 'pop-inrange'):
            ex.raise_('IndexError', 'pop from empty list / index out of range')
        x = ex.known(ex.heap.lelt(r, j))
        ex.assume_elem(x)
        ex.list_write('pop', r, n - 1, shifted_delete(ex, ex.heap.lelts(r), j))
        ex.last_pop = (r, j, x)
        return x

    def list_remove(self, ex, recv, r, args, kwargs):
        (v,) = [ex.to_val(a) for a in args]
        n = ex.heap.llen(r)
        ex.assume(n >= 0)
        from .pymodel import shifted_delete
        found = L.UF('seq_contains', I, z3.ArraySort(I, Val), Val, B)(n, ex.heap.lelts(r), v)
        if not ex.branch(found, 'remove-found'):
            ex.raise_('ValueError', 'list.remove(x): x not in list')
        j = ex.fresh_int('pos')
        ex.assume(z3.And(j >= 0, j < n))
        ex.list_write('remove', r, n - 1, shifted_delete(ex, ex.heap.lelts(r), j))
        return L.NoneV

    def list_index(self, ex, recv, r, args, kwargs):
        v = ex.to_val(args[0])
        n = ex.heap.llen(r)
        found = L.UF('seq_contains', I, z3.ArraySort(I, Val), Val, B)(n, ex.heap.lelts(r), v)
        if not ex.branch(found, 'index-found'):
            ex.raise_('ValueError', 'x not in list')
        j = L.UF('seq_index', I, z3.ArraySort(I, Val), Val, I)(n, ex.heap.lelts(r), v)
        ex.assume(z3.And(j >= 0, j < n))
        return L.IntV(j)

    def list_count(self, ex, recv, r, args, kwargs):
        n = ex.heap.llen(r)
        c = ex.fresh_int('count')
        ex.assume(z3.And(c >= 0, c <= n))
        return L.IntV(c)

    def list_sort(self, ex, recv, r, args, kwargs):
        key = kwargs.get('key')
        if key is not None:
            self.ucc_many(ex, key)
        ex.may_raise(['TypeError'], 'comparison in sort')
        n = ex.heap.llen(r)
        arr = z3.Const(ex.fresh_name('sorted'), z3.ArraySort(I, Val))
        ex.note_array_elems(arr, ('perm', ex.heap.lelts(r)))
        ex.list_write('sort', r, n, arr)
        return L.NoneV

    def list_reverse(self, ex, recv, r, args, kwargs):
        n = ex.heap.llen(r)
        j = z3.Int('j!rev')
        from .pymodel import def_array
        old = ex.heap.lelts(r)
        ex.list_write('reverse', r, n, def_array(ex, lambda jj: z3.Select(old, n - 1 - jj)))
        return L.NoneV

    def list_extend(self, ex, recv, r, args, kwargs):
        from .pymodel import concat_arrays
        v = ex.to_val(args[0])
        m, src = self.model.iter_snapshot(ex, v)
        n = ex.heap.llen(r)
        ex.list_write('extend', r, n + m, concat_arrays(ex, ex.heap.lelts(r), n, src))
        return L.NoneV

    def list_copy(self, ex, recv, r, args, kwargs):
        h = ex.heap
        nr = ex.new_list(h.llen(r), h.lelts(r))
        ex.event('write', 'list', 'copy', nr, z3.IntVal(0), h.llen(r), ())
        return L.ListV(nr)

    def list_clear(self, ex, recv, r, args, kwargs):
        ex.list_write('clear', r, z3.IntVal(0), z3.K(I, L.NoneV))
        return L.NoneV

    # dict methods
    def _view(self, ex, r, kind):
        it = L.OpaqueV(L.OK['view'], ex.fresh_int(kind))
        d = IterDesc({'keys': 'dictkeys', 'values': 'dictvalues', 'items': 'dictitems'}[kind], ref=r)
        h = ex.heap
        n = h.dlen(r)

        def snap(e, r=r, kind=kind):
            hh = e.heap
            nn = hh.dlen(r)
            e.assume(z3.And(nn >= 0, nn <= F_CAP()))
            e.last_snapshot_kind = 'dict'
            if kind == 'keys':
                return nn, hh.arr('DKEY')[r]
            out = z3.Const(e.fresh_name(kind), z3.ArraySort(I, Val))
            e.note_array_elems(out, ('dict-' + kind, r))
            e.dict_views.append((kind, out, r, nn))
            return nn, out
        d.snap = snap
        ex.iter_descs[it.get_id()] = d
        return it

    def dict_keys(self, ex, recv, r, args, kwargs):
        return self._view(ex, r, 'keys')

    def dict_values(self, ex, recv, r, args, kwargs):
        return self._view(ex, r, 'values')

    def dict_items(self, ex, recv, r, args, kwargs):
        return self._view(ex, r, 'items')

    def dict_get(self, ex, recv, r, args, kwargs):
        key = ex.to_val(args[0])
        default = ex.to_val(args[1]) if len(args) > 1 else ex.to_val(kwargs.get('default', L.NoneV))
        if not ex.branch(self.model.hashable(key), 'hashable'):
            ex.raise_('TypeError', 'unhashable')
        if ex.branch(ex.heap.dhas(r, key), 'dict-has'):
            ex.assume(ex.heap.dlen(r) >= 1)
            x = ex.known(ex.heap.dval(r, key))
            ex.assume_elem(x)
            return x
        return default

    def dict_pop(self, ex, recv, r, args, kwargs):
        if not args:
            ex.raise_('TypeError', 'pop expected at least 1 argument')
        key = ex.to_val(args[0])
        h = ex.heap
        if not ex.branch(self.model.hashable(key), 'hashable'):
            ex.raise_('TypeError', 'unhashable')
        if ex.branch(h.dhas(r, key), 'dict-has'):
            ex.assume(ex.heap.dlen(r) >= 1)
            x = ex.known(h.dval(r, key))
            ex.assume_elem(x)
            ex.dict_write('pop', r, h.dlen(r) - 1, z3.Store(h.arr('DHAS')[r], key, z3.BoolVal(False)),
                          h.arr('DVAL')[r], None)
            return x
        if len(args) > 1:
            return ex.to_val(args[1])
        ex.raise_('KeyError', 'pop of missing key')

    def dict_setdefault(self, ex, recv, r, args, kwargs):
        if not args:
            ex.raise_('TypeError', 'setdefault expected at least 1 argument')
        key = ex.to_val(args[0])
        default = ex.to_val(args[1]) if len(args) > 1 else L.NoneV
        if not ex.branch(self.model.hashable(key), 'hashable'):
            ex.raise_('TypeError', 'unhashable')
        if ex.branch(ex.heap.dhas(r, key), 'dict-has'):
            ex.assume(ex.heap.dlen(r) >= 1)
            x = ex.known(ex.heap.dval(r, key))
            ex.assume_elem(x)
            return x
        self.model.setitem(ex, recv, key, default)
        return default

    def dict_update(self, ex, recv, r, args, kwargs):
        h = ex.heap
        n0 = h.dlen(r)
        add = z3.IntVal(len(kwargs))
        for a in args:
            a = ex.to_val(a)
            if not ex.branch(L.is_Dict(a), 'update-from-dict'):
                ex.may_raise(['TypeError', 'ValueError'], 'update from a non-mapping')
                ex.event('unmodelled_call', 'dict.update from a non-dict')
                return self.unknown_call(ex, 'dict.update from a non-dict', [a])
            add = add + h.dlen(Val.dref(a))
        n1 = ex.fresh_int('len')
        ex.assume(z3.And(n1 >= n0, n1 <= n0 + add))
        val = z3.Const(ex.fresh_name('dval'), z3.ArraySort(Val, Val))
        ex.note_array_elems(val, 'from2')
        ex.dict_write('update', r, n1, z3.Const(ex.fresh_name('dhas'), z3.ArraySort(Val, B)), val, None)
        return L.NoneV

    def dict_copy(self, ex, recv, r, args, kwargs):
        h = ex.heap
        nr = ex.new_dict()
        ex.dict_write('copy', nr, h.dlen(r), h.arr('DHAS')[r], h.arr('DVAL')[r], h.arr('DKEY')[r])
        return L.DictV(nr)

    # str methods
    def _need_str(self, ex, v, what):
        v = ex.to_val(v)
        if not ex.branch(L.is_Str(v), what + '-str-arg'):
            ex.raise_('TypeError', what + ': must be str')
        return v

    def str_join(self, ex, recv, args, kwargs):
        v = ex.to_val(args[0])
        n, arr = self.model.iter_snapshot(ex, v)
        ex.may_raise(['TypeError'], 'join of non-strings')
        ex.event('join_of', v)
        r = ex.fresh_str('joined')
        ex.event('stub', 'str.join', (recv, v), {}, r)
        return r

    def str_split(self, ex, recv, args, kwargs):
        sep = ex.to_val(args[0]) if args else L.NoneV
        mx = ex.to_val(args[1]) if len(args) > 1 else ex.to_val(kwargs.get('maxsplit', L.IntV(-1)))
        if not ex.branch(z3.Or(L.is_None(sep), L.is_Str(sep)), 'split-sep-str'):
            ex.raise_('TypeError', 'must be str or None')
        if not ex.branch(self.model.index_like(mx), 'split-max-int'):
            ex.raise_('TypeError', 'integer expected')
        if ex.branch(z3.And(L.is_Str(sep), L.slen(Val.s(sep)) == 0), 'split-empty-sep'):
            ex.raise_('ValueError', 'empty separator')
        n = ex.fresh_int('nparts')
        ex.assume(z3.And(n >= 0, n <= L.slen(Val.s(recv)) + 1))
        arr = z3.Const(ex.fresh_name('parts'), z3.ArraySort(I, Val))
        ex.note_array_elems(arr, 'strs')
        r = ex.new_list(n, arr)
        ex.event('write', 'list', 'split', r, z3.IntVal(0), n, ())
        ex.event('list_from_str', r, recv)
        ex.event('stub', 'str.split', (recv, sep, mx), {}, L.ListV(r))
        return L.ListV(r)

    def str_replace(self, ex, recv, args, kwargs):
        old = self._need_str(ex, args[0], 'replace')
        new = self._need_str(ex, args[1], 'replace')
        c = L.IntV(-1)
        if len(args) > 2:
            c = ex.to_val(args[2])
            if not ex.branch(self.model.index_like(c), 'replace-count-int'):
                ex.raise_('TypeError', 'integer expected')
        r = L.StrV(L.UF('str_replace', I, I, I, Val, I)(Val.s(recv), Val.s(old), Val.s(new), c))
        ex.event('stub', 'str.replace', (recv, old, new, c), {}, r)
        return r

    def _str_pure(self, ex, recv, args, name):
        for a in args:
            self._need_str(ex, a, name)
        s = L.UF('str_' + name, I, I)(Val.s(recv))
        ex.assume(L.slen(s) >= 0)
        return L.StrV(s)

    def str_lower(self, ex, recv, args, kwargs):
        return self._str_pure(ex, recv, args, 'lower')

    def str_upper(self, ex, recv, args, kwargs):
        return self._str_pure(ex, recv, args, 'upper')

    def str_strip(self, ex, recv, args, kwargs, which='strip'):
        if not args:
            sid = L.UF('str_' + which, I, I)(Val.s(recv))
            ex.assume(z3.And(L.slen(sid) >= 0, L.slen(sid) <= L.slen(Val.s(recv))))
            return L.StrV(sid)
        s = ex.fresh_str('stripped')
        ex.assume(L.slen(Val.s(s)) <= L.slen(Val.s(recv)))
        for a in args:
            v = ex.to_val(a)
            if not ex.branch(z3.Or(L.is_Str(v), L.is_None(v)), 'strip-arg'):
                ex.raise_('TypeError', 'strip arg must be None or str')
        return s

    def str_rstrip(self, ex, recv, args, kwargs):
        return self.str_strip(ex, recv, args, kwargs, 'rstrip')

    def str_lstrip(self, ex, recv, args, kwargs):
        return self.str_strip(ex, recv, args, kwargs, 'lstrip')

    def str_index(self, ex, recv, args, kwargs):
        self._need_str(ex, args[0], 'index')
        ex.may_raise(['ValueError'], 'substring not found')
        j = ex.fresh_int('pos')
        ex.assume(z3.And(j >= 0, j <= L.slen(Val.s(recv))))
        return L.IntV(j)

    def str_find(self, ex, recv, args, kwargs):
        self._need_str(ex, args[0], 'find')
        j = ex.fresh_int('pos')
        ex.assume(z3.And(j >= -1, j <= L.slen(Val.s(recv))))
        return L.IntV(j)

    def str_count(self, ex, recv, args, kwargs):
        self._need_str(ex, args[0], 'count')
        j = ex.fresh_int('cnt')
        ex.assume(z3.And(j >= 0, j <= L.slen(Val.s(recv)) + 1))
        return L.IntV(j)

    def str_startswith(self, ex, recv, args, kwargs):
        p = ex.to_val(args[0])
        if not ex.branch(z3.Or(L.is_Str(p), L.is_Tuple(p)), 'startswith-arg'):
            ex.raise_('TypeError', 'startswith first arg must be str or a tuple of str')
        ex.may_raise(['TypeError'], 'tuple of non-str / bad start index')
        return L.BoolV(L.UF('str_startswith', I, Val, B)(Val.s(recv), p))

    def str_endswith(self, ex, recv, args, kwargs):
        p = ex.to_val(args[0])
        if not ex.branch(z3.Or(L.is_Str(p), L.is_Tuple(p)), 'endswith-arg'):
            ex.raise_('TypeError', 'endswith first arg must be str or a tuple of str')
        ex.may_raise(['TypeError'], 'tuple of non-str / bad start index')
        return L.BoolV(L.UF('str_endswith', I, Val, B)(Val.s(recv), p))

    # ------------------------------------------------------------------ external classes
    def ext_method(self, ex, cls, recv, name, args, kwargs):
        m = getattr(self, 'e_%s_%s' % (cls, name), None)
        if m is None:
            raise Unsupported('method %s of external class %s' % (name, cls))
        return m(ex, recv, args, kwargs)
