"""Sorts, the value datatype, exception hierarchy and model functions of the VC logic.

Quantifier-free arrays + linear integer arithmetic + uninterpreted functions +
one non-recursive datatype (DESIGN 2.3).  No sequence/string theory.
"""
import z3

I = z3.IntSort()
B = z3.BoolSort()

_V = z3.Datatype('Val')
_V.declare('NoneV')
_V.declare('BoolV', ('b', B))
_V.declare('IntV', ('i', I))
_V.declare('FloatV', ('fl', I))
_V.declare('DecV', ('d', I))
_V.declare('StrV', ('s', I))
_V.declare('ListV', ('lref', I))
_V.declare('DictV', ('dref', I))
_V.declare('TupleV', ('tref', I))
_V.declare('SliceV', ('slref', I))
_V.declare('FunV', ('fn', I))
_V.declare('ObjV', ('oref', I))
_V.declare('TypeV', ('ty', I))
_V.declare('EllipsisV')
_V.declare('OpaqueV', ('okind', I), ('oid', I))
Val = _V.create()

NoneV = Val.NoneV
EllipsisV = Val.EllipsisV
TrueV = Val.BoolV(z3.BoolVal(True))
FalseV = Val.BoolV(z3.BoolVal(False))


def BoolV(b):
    return Val.BoolV(b)


def IntV(i):
    if isinstance(i, int):
        i = z3.IntVal(i)
    return Val.IntV(i)


def StrV(s):
    if isinstance(s, int):
        s = z3.IntVal(s)
    return Val.StrV(s)


def DecV(d):
    return Val.DecV(d)


def FloatV(f):
    return Val.FloatV(f)


def ListV(r):
    return Val.ListV(r)


def DictV(r):
    return Val.DictV(r)


def TupleV(r):
    return Val.TupleV(r)


def SliceV(r):
    return Val.SliceV(r)


def FunV(i):
    if isinstance(i, int):
        i = z3.IntVal(i)
    return Val.FunV(i)


def ObjV(r):
    return Val.ObjV(r)


def TypeV(i):
    if isinstance(i, int):
        i = z3.IntVal(i)
    return Val.TypeV(i)


def OpaqueV(kind, ident):
    if isinstance(kind, int):
        kind = z3.IntVal(kind)
    return Val.OpaqueV(kind, ident)


is_None = Val.is_NoneV
is_Bool = Val.is_BoolV
is_Int = Val.is_IntV
is_Float = Val.is_FloatV
is_Dec = Val.is_DecV
is_Str = Val.is_StrV
is_List = Val.is_ListV
is_Dict = Val.is_DictV
is_Tuple = Val.is_TupleV
is_Slice = Val.is_SliceV
is_Fun = Val.is_FunV
is_Obj = Val.is_ObjV
is_Type = Val.is_TypeV
is_Ellipsis = Val.is_EllipsisV
is_Opaque = Val.is_OpaqueV

# opaque kinds (non-plain host-level objects a stub may hand back)
OPAQUE_KINDS = ['view', 'iterator', 'match', 'module', 'boundmethod', 'instance', 'frame',
                'code', 'path', 'lexer', 'parser', 'generator', 'other', 'pattern']
OK = {k: i for i, k in enumerate(OPAQUE_KINDS)}


def refof(v):
    """The heap reference carried by a value, or -1."""
    return z3.If(is_List(v), Val.lref(v),
           z3.If(is_Dict(v), Val.dref(v),
           z3.If(is_Tuple(v), Val.tref(v),
           z3.If(is_Slice(v), Val.slref(v),
           z3.If(is_Obj(v), Val.oref(v), z3.IntVal(-1))))))


def is_numeric(v):
    return z3.Or(is_Int(v), is_Bool(v), is_Float(v), is_Dec(v))


def is_container(v):
    return z3.Or(is_List(v), is_Dict(v), is_Tuple(v))


def is_scalar(v):
    return z3.Or(is_None(v), is_Bool(v), is_Int(v), is_Float(v), is_Dec(v), is_Str(v))


def tag_plain(v):
    """Tag-level part of the plain-data predicate of C02 (containers are plain by the
    global element invariant; Fun = builtin or closure, Type = a type exposed as builtin)."""
    return z3.Or(is_None(v), is_Bool(v), is_Int(v), is_Float(v), is_Dec(v), is_Str(v),
                 is_List(v), is_Dict(v), is_Tuple(v), is_Slice(v), is_Fun(v))


_UF = {}


def UF(name, *sorts):
    if name not in _UF:
        _UF[name] = z3.Function(name, *sorts)
    return _UF[name]


# ---- model functions (uninterpreted; axioms are instantiated by the stubs) ----
slen = UF('slen', I, I)                 # length of string id
dec_digits = UF('dec_digits', I, I)     # number of coefficient digits of a Decimal id
dec_adj = UF('dec_adj', I, I)           # adjusted exponent
dec_integral = UF('dec_integral', I, B)
dec_finite = UF('dec_finite', I, B)
dec_q = UF('dec_q', I, z3.RealSort())   # exact rational value
dec_nonzero = UF('dec_nonzero', I, B)
flt_nonzero = UF('flt_nonzero', I, B)
int_digits = UF('int_digits', I, I)     # decimal digits of an int
str_of = UF('str_of', Val, I)           # str(v) -> string id
dec_of_str = UF('dec_of_str', I, I)     # Decimal(text) -> decimal id
dec_of_int = UF('dec_of_int', I, I)
dec_of_flt = UF('dec_of_flt', I, I)
cls_of = UF('cls_of', I, I)             # class id of an object ref (immutable)
node_owned = UF('node_owned', I, B)     # list ref owned by a syntax tree node (immutable classification)
closure_state = UF('closure_state', I, I)   # VMState ref captured by closure id
is_closure = UF('is_closure', I, B)
is_builtin_fun = UF('is_builtin_fun', I, B)


def digits_of(v):
    """significant digits of a numeric value (Bool: 1)."""
    return z3.If(is_Dec(v), dec_digits(Val.d(v)),
           z3.If(is_Int(v), int_digits(Val.i(v)),
           z3.If(is_Bool(v), z3.IntVal(1), z3.IntVal(17))))


# ---- exception hierarchy -------------------------------------------------------
EXC_PARENT = {
    'BaseException': None,
    'Exception': 'BaseException',
    'SystemExit': 'BaseException',
    'KeyboardInterrupt': 'BaseException',
    'GeneratorExit': 'BaseException',
    'ArithmeticError': 'Exception',
    'ZeroDivisionError': 'ArithmeticError',
    'OverflowError': 'ArithmeticError',
    'DecimalException': 'ArithmeticError',
    'LookupError': 'Exception',
    'KeyError': 'LookupError',
    'IndexError': 'LookupError',
    'TypeError': 'Exception',
    'ValueError': 'Exception',
    'AttributeError': 'Exception',
    'RuntimeError': 'Exception',
    'TimeoutError': 'Exception',
    'RegexError': 'Exception',
    'StopIteration': 'Exception',
    'OtherException': 'Exception',       # any Exception subclass not otherwise listed
    'SyntaxError': 'Exception', 'IndentationError': 'SyntaxError', 'NameError': 'Exception', 'OSError': 'Exception',
    'FileNotFoundError': 'OSError', 'PermissionError': 'OSError', 'NotImplementedError': 'RuntimeError',
    'RecursionError': 'RuntimeError', 'AssertionError': 'Exception', 'ImportError': 'Exception',
    'ModuleNotFoundError': 'ImportError', 'UnicodeError': 'ValueError', 'MemoryError': 'Exception', 'BufferError': 'Exception',
    'EOFError': 'Exception', 'FloatingPointError': 'ArithmeticError', 'Warning': 'Exception',
}
EXC_ID = {}


def register_exception(name, parent):
    if parent is not None and parent not in EXC_PARENT:
        # a base the table does not know: cannot be shown to be an ordinary Exception
        register_exception(parent, 'BaseException')
    if name not in EXC_PARENT:
        EXC_PARENT[name] = parent
    if name not in EXC_ID:
        EXC_ID[name] = len(EXC_ID)


for _n in list(EXC_PARENT):
    register_exception(_n, EXC_PARENT[_n])


def exc_ancestors(name):
    out = []
    while name is not None:
        out.append(name)
        name = EXC_PARENT[name]
    return out


def exc_subclasses(name):
    return [n for n in EXC_PARENT if name in exc_ancestors(n)]


def exc_is_sub(cls_expr, name):
    """z3 formula: exception class id `cls_expr` is a subclass of `name`."""
    if isinstance(cls_expr, int):
        return z3.BoolVal(any(EXC_ID[n] == cls_expr for n in exc_subclasses(name)))
    return z3.Or([cls_expr == EXC_ID[n] for n in exc_subclasses(name)])


def exc_name(i):
    for n, k in EXC_ID.items():
        if k == i:
            return n
    return '?%s' % i


def simp(e):
    return z3.simplify(e)


def is_true(e):
    return z3.is_true(e)


def is_false(e):
    return z3.is_false(e)
