"""Obligations decided outside the symbolic executor (constants, regex facts, grammar tables, PLY
frame scan) and the bounded stand-ins.  Each part returns obligations in the common format."""
import importlib
import traceback

PARTS = {}      # prop -> [callable(tier, seed) -> (obligations, info)]


def register(props, fn):
    for p in props:
        PARTS.setdefault(p, []).append(fn)


def ob(name, props, ok, info=None, model=None, t=0.0, status=None):
    return {'name': name, 'props': sorted(props), 'status': status or ('proved' if ok else 'refuted'),
            'func': 'extras', 'path': '', 'model': model, 'time': t, 'info': info or {}, 'static': True}


_loaded = False


def load():
    global _loaded
    if _loaded:
        return
    _loaded = True
    for m in ('sqv.parts_static', 'sqv.parts_grammar', 'sqv.parts_frames', 'sqv.parts_bounded'):
        try:
            importlib.import_module(m)
        except ModuleNotFoundError as e:
            if e.name != m:
                raise


def run(prop, tier, seed):
    load()
    obs = []
    info = {'errors': [], 'undecided': [], 'assumptions': [], 'bounded_standins': [], 'trusted_base': [], 'assumed': []}
    for fn in PARTS.get(prop, []):
        try:
            o, i = fn(prop, tier, seed)
            obs.extend(o)
            for k, v in (i or {}).items():
                if isinstance(v, list):
                    info.setdefault(k, []).extend(v)
                else:
                    info[k] = v
        except Exception as e:
            info['errors'].append('%s: %s\n%s' % (type(e).__name__, e, traceback.format_exc()))
    return obs, info
