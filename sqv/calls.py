"""Call resolution: package functions (contract or inlined body), constructors, method
dispatch, dynamic calls (abstract Op.eval contract, universal callable contract)."""
import ast
import z3

from . import logic as L
from .logic import Val
from .symex import (Env, St, Closure, BoundMethod, SuperProxy, PyRaise, ReturnEx, PathEnd, Unsupported)

MAX_INLINE_DEPTH = 8


class Pack:
    """*args at a call site: a symbolic list/tuple value"""

    def __init__(self, val):
        self.val = val


class Calls:
    def __init__(self, engine):
        self.engine = engine
        self.src = engine.src

    # -- entry from the interpreter ------------------------------------------------
    def call(self, ex, node, env):
        fn = node.func
        if isinstance(fn, ast.Attribute) and isinstance(fn.value, ast.Call) \
                and isinstance(fn.value.func, ast.Name) and fn.value.func.id == 'super':
            cls = ex.cur_class
            if cls is None:
                raise Unsupported('super() outside class')
            self_val = env.lookup('self') if env.has('self') else (env.lookup('cls') if env.has('cls') else L.NoneV)
            target = None
            for c in self.src.mro(cls)[1:]:
                if fn.attr in self.src.classes[c].methods:
                    target = self.src.funcs['smartquery.%s:%s.%s' % (self.src.classes[c].module, c, fn.attr)]
                    break
            args, kwargs = self.eval_args(ex, node, env)
            if target is None:
                base = getattr(ex, 'super_base', None)
                if fn.attr == '__new__' and base is not None:
                    return self.engine.model.call_static(ex, St('extclass', base), args[1:], kwargs)
                # parent outside the package (Decimal_.__str__ ...): opaque
                return self.engine.model.call_static(ex, St('ext', 'super.' + fn.attr), [self_val] + args, kwargs)
            ex.event('super_call', target.key, tuple([self_val] + args))
            return self.call_package(ex, target, [self_val] + args, kwargs)
        callee = ex.eval(fn, env)
        args, kwargs = self.eval_args(ex, node, env)
        return self.call_value(ex, callee, args, kwargs)

    def eval_args(self, ex, node, env):
        args = []
        for a in node.args:
            if isinstance(a, ast.Starred):
                v = ex.force(ex.eval(a.value, env))
                if isinstance(v, tuple):
                    args.extend(v)
                else:
                    args.append(Pack(v))
            else:
                args.append(ex.eval(a, env))
        kwargs = {}
        for k in node.keywords:
            if k.arg is None:
                raise Unsupported('**kwargs at call site')
            kwargs[k.arg] = ex.eval(k.value, env)
        return args, kwargs

    # -- dispatch on the callee value --------------------------------------------------
    def call_value(self, ex, callee, args, kwargs):
        if isinstance(callee, St):
            if callee.kind == 'func':
                return self.call_package(ex, self.src.funcs[callee.name], args, kwargs)
            if callee.kind == 'class':
                return self.construct(ex, callee.name, args, kwargs)
            return self.engine.model.call_static(ex, callee, args, kwargs)
        if isinstance(callee, BoundMethod):
            return self.call_method(ex, callee.recv, callee.name, args, kwargs)
        if isinstance(callee, Closure):
            return self.inline(ex, callee.finfo, args, kwargs, callee.env)
        if isinstance(callee, z3.ExprRef):
            c = L.simp(callee)
            if z3.is_app(c) and c.decl().name() == 'FunV' and z3.is_int_value(c.arg(0)):
                k = c.arg(0).as_long()
                st = self.engine.static_by_id.get(k)
                if st is not None:
                    return self.call_value(ex, st, args, kwargs)
            if z3.is_app(c) and c.decl().name() == 'FunV':
                clo = ex.closures.get(c.arg(0).get_id())
                if clo is not None:
                    return self.inline(ex, clo.finfo, args, kwargs, clo.env)
            return self.dynamic_call(ex, 'ucc', callee, args, kwargs)
        raise Unsupported('call of %r' % (callee,))

    # -- package functions ------------------------------------------------------------------
    # decorators whose effect on a call is modelled (or nil): anything else changes what calling the name does
    KNOWN_DECORATORS = ('contextmanager', 'contextlib.contextmanager', 'staticmethod', 'classmethod', 'dataclass', 'functools.wraps',
                        'wraps', 'abstractmethod', 'abc.abstractmethod', 'property')

    def call_package(self, ex, fi, args, kwargs):
        odd = [d for d in fi.decorators if d.split('(')[0] not in self.KNOWN_DECORATORS]
        if odd:
            # e.g. a memoising decorator: the call may hand back an object an earlier call produced
            ex.event('unmodelled_call', '%s decorated with @%s' % (fi.qual, odd[0]))
            return self.engine.model.stubs.unknown_call(ex, '%s decorated with @%s' % (fi.qual, odd[0]),
                                                        [ex.to_val(a) for a in args if not isinstance(a, Pack)])
        if fi.is_generator() and 'contextmanager' not in fi.decorators:
            g = L.OpaqueV(L.OK['generator'], ex.fresh_int('gen'))
            ex.event('generator_created', fi.key, tuple(args), dict(kwargs), g)
            return g
        c = self.engine.contracts.get(fi.key)
        if c is not None and not (ex.task.finfo is fi):
            return c.apply(ex, args, kwargs)
        if c is not None and ex.depth > 0:
            return c.apply(ex, args, kwargs)
        if 'contextmanager' in fi.decorators:
            return ('contextmanager', fi, None, list(args), kwargs)
        return self.inline(ex, fi, args, kwargs, None)

    def bind(self, ex, fi, args, kwargs, env):
        pos, defaults, vararg, kwarg = fi.params()
        kwonly = fi.kwonly()
        kwargs = dict(kwargs)
        for name, d in kwonly:
            if name in kwargs:
                env.vars[name] = kwargs.pop(name)
            elif d is not None:
                saved = ex.cur_module
                ex.cur_module = fi.module
                env.vars[name] = ex.eval(d, Env())
                ex.cur_module = saved
            else:
                ex.raise_('TypeError', 'missing keyword-only argument %s' % name)
        if kwarg:
            # **kw: the keyword arguments no parameter takes, as a new dict
            extra = {k: v for k, v in kwargs.items() if k not in pos}
            kwargs = {k: v for k, v in kwargs.items() if k in pos}
            r = ex.new_dict_from([(ex.str_lit(k), ex.to_val(v)) for k, v in extra.items()]) if hasattr(ex, 'new_dict_from') else None
            if r is None:
                raise Unsupported('**kwargs parameter')
            env.vars[kwarg] = L.DictV(r)
        flat = []
        pack = None
        for a in args:
            if isinstance(a, Pack):
                if pack is not None:
                    raise Unsupported('two packs')
                pack = a
            else:
                if pack is not None:
                    raise Unsupported('positional after pack')
                flat.append(a)
        k = 0
        bound = {}
        for name in pos:
            if k < len(flat):
                bound[name] = flat[k]
                k += 1
        rest = flat[k:]
        unbound = [n for n in pos if n not in bound]
        if pack is not None:
            seq = pack.val
            n = self.engine.model.seq_len(ex, seq)
            idx = 0
            for name in list(unbound):
                if name in kwargs:
                    continue
                d = defaults[pos.index(name)]
                if d is not None or True:
                    if ex.branch(n > idx, 'pack>%d' % idx):
                        bound[name] = self.engine.model.seq_get(ex, seq, z3.IntVal(idx))
                        unbound.remove(name)
                        idx += 1
                    else:
                        break
            if vararg:
                if idx == 0 and not rest:
                    env.vars[vararg] = self.engine.model.as_tuple(ex, seq)
                else:
                    env.vars[vararg] = self.engine.model.seq_tail_tuple(ex, rest, seq, idx)
            else:
                if not ex.branch(n <= idx, 'packfits'):
                    ex.raise_('TypeError', 'too many positional arguments')
        else:
            if vararg:
                env.vars[vararg] = L.TupleV(ex.new_list_from([ex.to_val(x) for x in rest], 'tuple'))
            elif rest:
                ex.raise_('TypeError', 'too many positional arguments')
        for name, v in kwargs.items():
            if name in bound:
                ex.raise_('TypeError', 'multiple values')
            if name not in pos:
                ex.raise_('TypeError', 'unexpected keyword')
            bound[name] = v
        for name in pos:
            if name not in bound:
                d = defaults[pos.index(name)]
                if d is None:
                    ex.raise_('TypeError', 'missing argument %s' % name)
                saved = ex.cur_module
                ex.cur_module = fi.module
                bound[name] = ex.eval(d, Env())
                ex.cur_module = saved
        for name in pos:
            env.vars[name] = bound[name]

    def inline(self, ex, fi, args, kwargs, closure_env):
        if ex.depth >= MAX_INLINE_DEPTH:
            # helpers without a contract are inlined; a recursive one (or a very deep chain) has no contract to use
            # instead: whatever it does is unknown
            ex.event('unmodelled_call', 'call of %s beyond the inline depth (recursive helper without a contract)' % fi.qual)
            return self.engine.model.stubs.unknown_call(ex, 'call of %s beyond the inline depth' % fi.qual,
                                                        [ex.to_val(a) for a in args if not isinstance(a, Pack) and isinstance(a, z3.ExprRef)])
        env = Env(closure_env)
        self.bind(ex, fi, args, kwargs, env)
        saved = (ex.cur_module, ex.cur_class)
        ex.cur_module, ex.cur_class = fi.module, fi.cls
        ex.depth += 1
        try:
            ex.exec_block(fi.body(), env)
            ret = L.NoneV
        except ReturnEx as r:
            ret = r.value
        finally:
            ex.depth -= 1
            ex.cur_module, ex.cur_class = saved
        return ret

    # -- constructors ------------------------------------------------------------------------
    def construct(self, ex, cname, args, kwargs):
        ci = self.src.classes[cname]
        shapes = self.engine.shapes
        if cname in L.EXC_ID or 'Exception' in ' '.join(ci.bases) or 'Error' in ' '.join(ci.bases):
            if cname not in L.EXC_ID:
                L.register_exception(cname, ci.bases[0].split('.')[-1] if ci.bases else 'BaseException')
            inst = L.OpaqueV(L.OK['instance'], ex.fresh_int('excinst'))
            ex.exc_instances[inst.get_id()] = L.EXC_ID[cname]
            init = self.src.find_method(cname, '__init__')
            if init is not None:
                iref = ex.alloc()
                ex.assume(L.cls_of(iref) == shapes.cid(cname))
                ex.note_class(iref, cname, exact=True)
                try:
                    self.inline(ex, init, [L.ObjV(iref)] + list(args), kwargs, None)
                except Unsupported:
                    pass
            return inst
        # a package class derived from an external class (custom_types.Decimal): its own __new__/__init__
        # if it defines one, else the external constructor
        ext_base = None
        for b in ci.bases:
            g = self.src.globals[ci.module].get(b)
            if g and g[0] == 'import' and not g[1].startswith('smartquery'):
                ext_base = g[1]
        if ext_base is not None and ext_base not in ('abc.ABC',):
            new = self.src.find_method(cname, '__new__')
            init = self.src.find_method(cname, '__init__')
            ex.event('ext_subclass_construct', cname, ext_base)
            if new is not None:
                ex.super_base = ext_base
                return self.call_package(ex, new, [St('class', cname)] + list(args), kwargs)
            if init is not None:
                raise Unsupported('__init__ on a subclass of %s' % ext_base)
            return self.engine.model.call_static(ex, St('extclass', ext_base), args, kwargs)
        ref = ex.alloc()
        ex.assume(L.cls_of(ref) == shapes.cid(cname))
        ex.note_class(ref, cname, exact=True)
        obj = L.ObjV(ref)
        is_dc = any(self.src.classes[c].is_dataclass for c in self.src.mro(cname))
        if is_dc and self.src.find_method(cname, '__init__') is None:
            fields = self.src.all_fields(cname)
            names = [f for f, _ in fields]
            flat = []
            pack = None
            for a in args:
                if isinstance(a, Pack):
                    pack = a
                else:
                    flat.append(a)
            if len(flat) > len(names):
                ex.raise_('TypeError', 'too many constructor arguments')
            bound = dict(zip(names, flat))
            if pack is not None:
                n = self.engine.model.seq_len(ex, pack.val)
                idx = 0
                for name in names[len(flat):]:
                    if name in kwargs:
                        break
                    if ex.branch(n > idx, 'ctorpack>%d' % idx):
                        bound[name] = self.engine.model.seq_get(ex, pack.val, z3.IntVal(idx))
                        idx += 1
                    else:
                        break
                if not ex.branch(n <= idx, 'ctorpackfits'):
                    ex.raise_('TypeError', 'too many constructor arguments')
            for k, v in kwargs.items():
                if k not in names or k in bound:
                    ex.raise_('TypeError', 'bad keyword %s' % k)
                bound[k] = v
            vals = {}
            for name, default in fields:
                if name in bound:
                    vals[name] = ex.to_val(bound[name])
                elif default is None:
                    ex.raise_('TypeError', 'missing constructor argument %s' % name)
                else:
                    vals[name] = ex.to_val(self.eval_default(ex, ci, default))
            for name in names:
                ex.set_field(ref, name, vals[name], fresh_obj=True)
            ex.event('construct', cname, ref, vals)
            post = self.src.find_method(cname, '__post_init__')
            if post is not None:
                self.call_package(ex, post, [obj], {})
            return obj
        init = self.src.find_method(cname, '__init__')
        if init is None:
            if args or kwargs:
                ex.raise_('TypeError', 'constructor takes no arguments')
            ex.event('construct', cname, ref, {})
            return obj
        ex.event('construct', cname, ref, None)
        self.call_package(ex, init, [obj] + list(args), kwargs)
        return obj

    def eval_default(self, ex, ci, default):
        saved = ex.cur_module
        ex.cur_module = ci.module
        try:
            if isinstance(default, ast.Call) and isinstance(default.func, ast.Name) and default.func.id == 'field':
                for k in default.keywords:
                    if k.arg == 'default_factory':
                        f = ex.eval(k.value, Env())
                        return self.call_value(ex, f, [], {})
                    if k.arg == 'default':
                        return ex.eval(k.value, Env())
                raise Unsupported('field() without default')
            return ex.eval(default, Env())
        finally:
            ex.cur_module = saved

    # -- methods ---------------------------------------------------------------------------------
    def call_method(self, ex, recv, name, args, kwargs):
        if isinstance(recv, St):
            return self.call_value(ex, self.engine.static_attr(ex, recv, name), args, kwargs)
        if not isinstance(recv, z3.ExprRef):
            raise Unsupported('method %s on %r' % (name, recv))
        cls = ex.class_of(recv)
        if cls is not None:
            if cls in self.src.classes:
                if name == 'eval' and 'Op' in self.src.mro(cls):
                    return self.dynamic_call(ex, 'op_eval', recv, args, kwargs)
                fi = self.src.find_method(cls, name)
                if fi is not None:
                    if 'contextmanager' in fi.decorators:
                        return ('contextmanager', fi, recv, args, kwargs)
                    if 'staticmethod' in fi.decorators:
                        return self.call_package(ex, fi, list(args), kwargs)
                    if 'classmethod' in fi.decorators:
                        return self.call_package(ex, fi, [St('class', cls)] + list(args), kwargs)
                    return self.call_package(ex, fi, [recv] + list(args), kwargs)
                # not a method: maybe a callable stored in a field
                f = ex.engine.model.getattr(ex, recv, name)
                return self.call_value(ex, f, args, kwargs)
            return self.engine.model.ext_method(ex, cls, recv, name, args, kwargs)
        return self.engine.model.method(ex, recv, name, args, kwargs)

    # -- dynamic calls ---------------------------------------------------------------------------------
    def dynamic_call(self, ex, kind, target, args, kwargs=None):
        """abstract Op.eval contract ('op_eval') or universal callable contract ('ucc')"""
        info = {'kind': kind, 'target': target, 'args': list(args), 'kwargs': dict(kwargs or {})}
        if kind == 'ucc' and isinstance(target, z3.ExprRef) and ex.families:
            # the universal callable contract is justified for what a program can name (host callables by assumption,
            # closures and builtins by proof) - not for a callable that came out of a call the model knows nothing about
            t = L.simp(target)
            if any(u.eq(t) or u.eq(target) for u in ex.unknown_vals):
                from .families import fname
                ex.prove('C02:%s:calls-no-callable-of-unknown-origin' % fname(ex), ['C01', 'C02', 'C03', 'C10', 'C13', 'C16', 'C17'],
                         False, {'callee': str(t)[:200]}, soft=True)
        for fam in ex.families:
            fam.before_call(ex, info)
        pre = ex.heap.copy()
        ex.havoc(['F_ops_evaluated'])
        ex.havoc_data()
        ex.havoc_alloc()
        ex.heap.g['nodes'] = ex.fresh_int('nodes')
        res = ex.fresh_val('ret')
        ex.known(res)
        raised = ex.branch(ex.fresh_bool('callee_raises'), 'callee_raises')
        cls = None
        if raised:
            cls = ex.fresh_int('exc')
            ex.assume(L.exc_is_sub(cls, 'Exception'))
        info.update(pre=pre, result=res, raised=cls)
        for fam in ex.families:
            fam.after_call(ex, info)
        ex.event('call', kind, target, tuple(args), res, cls, ex.heap.copy())
        if raised:
            raise PyRaise(cls, 'callee')
        return res
