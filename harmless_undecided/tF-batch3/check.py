import os, sys; sys.path.insert(0, os.getcwd())
import smartquery
assert smartquery.__file__.startswith(os.getcwd() + os.sep), smartquery.__file__

import hashlib
import types
from collections import OrderedDict
from decimal import Decimal as PyDecimal

from smartquery.sq_parser import SqParser
from smartquery.ast_ops import LambdaOp, NameOp, Op
from smartquery.scoped_dict import ScopedDict
from smartquery.vm_state import VMState
import smartquery.scoped_dict as sd_mod
import smartquery.vm_state as vs_mod

sys.setrecursionlimit(1000)

OUT = []
PARSER = SqParser()


def canon(v, depth=0):
    """Deterministic, type-carrying rendering without addresses."""
    if depth > 8:
        return '<deep>'
    t = type(v).__name__
    if v is None or isinstance(v, (bool, int, float, str, bytes)):
        return (t, repr(v))
    if isinstance(v, PyDecimal):
        return (t, str(v))
    if isinstance(v, dict):
        return (t, [(canon(k, depth + 1), canon(x, depth + 1)) for k, x in v.items()])
    if isinstance(v, (list, tuple)):
        return (t, [canon(x, depth + 1) for x in v])
    if isinstance(v, slice):
        return (t, canon(v.start), canon(v.stop), canon(v.step))
    if isinstance(v, ScopedDict):
        return (t, [canon(s, depth + 1) for s in v.scopes])
    if isinstance(v, Op):
        return ('Op', t)
    if callable(v):
        return ('callable', getattr(v, '__name__', t))
    return (t, '<obj>')


def outcome(fn):
    try:
        return ('ok', canon(fn()))
    except RecursionError as e:
        return ('exc', 'RecursionError', str(e))
    except BaseException as e:  # noqa
        return ('exc', type(e).__name__, str(e))


def record(tag, *parts):
    OUT.append((tag,) + parts)


class LogDict(dict):
    """Host mapping that logs the order of the lookups made on it."""

    def __init__(self, *a, **kw):
        super().__init__(*a, **kw)
        self.log = []

    def __contains__(self, k):
        r = super().__contains__(k)
        self.log.append(('in', k, r))
        return r

    def __getitem__(self, k):
        self.log.append(('get', k))
        return super().__getitem__(k)

    def __setitem__(self, k, v):
        self.log.append(('set', k, canon(v)))
        super().__setitem__(k, v)


class LyingDict(LogDict):
    """Claims to contain everything; __getitem__ then raises KeyError."""

    def __contains__(self, k):
        self.log.append(('in', k, True))
        return True


class BoomDict(LogDict):
    def __contains__(self, k):
        self.log.append(('in', k, 'boom'))
        if k == 'boom':
            raise ValueError('contains exploded for ' + k)
        return dict.__contains__(self, k)


def ev(tag, expr, names=None, ast_names=None, max_ops=None):
    kw = {}
    if max_ops is not None:
        kw['max_ops_evaluated'] = max_ops
    res = outcome(lambda: PARSER.eval(expr, names=names, ast_names=ast_names, **kw))
    record(tag, expr, max_ops, res, canon(names), getattr(names, 'log', None))
    return res


# ---------------------------------------------------------------- 1. plain programs
LAMBDA_PROGRAMS = [
    '(x => x + 1)',
    'f = x => x + 1\nf(1)',
    'f = x => x + 1\nf(1, 2)',
    'f = x => x + 1\nf()',
    'f = (a, b) => a + b\nf(1)',
    'f = (a, b) => a + b\nf(1, 2, 3)',
    'f = (a, b) => a - b\nf(10, 3)',
    'x = 5\nf = x => x * 2\nf(7) + x',
    'x = 5\nf = y => x * y\nf(7)',
    'x = 5\nf = y => x * y\nx = 6\nf(7)',
    'f = y => q\nf(1)',
    'f = y => y\nf(1)\ny',
    'a = 1\nf = a => g(a)\ng = b => a + b\nf(10)',
    'a = 1\nf = a => g(a + 1)\ng = b => a * 100 + b\nf(10) + a',
    'f = a => (b => a + b)\ng = f(1)\ng(2)',
    'a = 40\nf = a => (b => a + b)\ng = f(1)\ng(2)',
    'f = len => len\nf(3) + len([1, 2])',
    'len = x => 99\nlen([1])',
    'f = str => str("a")\nf(upper)',
    '[1, 2, 3] | map(v => v * 2)',
    '[1, 2, 3] | map(v => w)',
    '[1, 2, 3] | filter(v => v > 1)',
    '[1, 2, 3, 4] | reduce((acc, v) => acc + v)',
    '[1, 2, 3, 4] | reduce((acc, v) => acc + w)',
    '{"a": 1, "b": 2} | map((k, v) => k + v)',
    '{"a": 1, "b": 2} | map(k => k)',
    '"abc" | map(c => upper(c))',
    '[[1, 2], [3]] | map(l => l | map(v => v + len(l)))',
    '[[1, 2], [3]] | map(v => v | map(v => v + 1))',
    'v = 100\n[[1, 2], [3]] | map(v => v | map(v => v + 1))\nv',
    'acc = 0\n[1, 2] | map(v => acc)\nacc',
    'f = n => 0 if n < 1 else n + f(n - 1)\nf(3)',
    'f = n => 0 if n < 1 else n + f(n - 1)\nf(0)',
    'f = n => f(n)\nf(1)',
    'f = n => 1 / n\nf(0)',
    'f = n => 1 / n\nf(0) if false else f(4)',
    'f = n => n["k"]\nf({"k": 3})',
    'f = n => n["k"]\nf({})',
    'f = () => 1',
    'f = (a, b, c) => [a, b, c]\nf(1, 2, 3)',
    'f = (a, a) => a\nf(1, 2)',
    'x = [1]\nf = l => push(l, 2)\nf(x)\nx',
    'x = [1]\nf = x => push(x, 2)\nf(x)\nx',
    'sorted([3, 1, 2], v => -v)',
    'g = f => f(2)\ng(v => v * 10)',
    'g = f => f(2)\ng(f => f)',
    'g = f => f(2)\ng(3)',
    'x += 1',
    'x = 1\nx += 1\nx',
    'undefined_fn(1)',
    'undefined_name',
    'x = 1\nx',
    'true and (v => v)(1)',
    '%имя%',
    '%имя% + "!"',
    'lower',
    'lower("ABC")',
    '',
    '# comment',
]

for i, prog in enumerate(LAMBDA_PROGRAMS):
    ev('plain', prog)
    ev('plain-names', prog, names={'x': 3, 'w': 'W', '%имя%': 'Аня', 'y': 'host-y'})

# ---------------------------------------------------------------- 2. ops budget sweeps
SWEEP = [
    'f = x => x + 1\nf(1)',
    '[1, 2, 3] | map(v => v * 2)',
    'a = 1\nf = a => g(a + 1)\ng = b => a * 100 + b\nf(10) + a',
    'f = n => 0 if n < 1 else n + f(n - 1)\nf(3)',
    '[1, 2, 3, 4] | reduce((acc, v) => acc + v)',
    'x = 2\nx *= 3\nx',
]
for prog in SWEEP:
    for budget in list(range(0, 45)) + [100, 1000]:
        names = LogDict({'x': 1})
        ev('sweep', prog, names=names, max_ops=budget)

# ---------------------------------------------------------------- 3. recursion depth
for depth in (5, 20, 60, 100, 140, 200, 400):
    ev('rec', 'f = n => 0 if n < 1 else 1 + f(n - 1)\nf(%d)' % depth, max_ops=10 ** 6)
ev('rec-inf', 'f = n => f(n + 1)\nf(0)', max_ops=10 ** 7)
ev('rec-inf-budget', 'f = n => f(n + 1)\nf(0)', max_ops=500)

# exact operation counts and scope stack after the run, via a hand-made state
for prog in LAMBDA_PROGRAMS + ['f = n => f(n + 1)\nf(0)']:
    base = {'len': len, 'map': smartquery.functions.FUNCTIONS['map'],
            'push': smartquery.functions.FUNCTIONS['push']}
    host = LogDict({'x': 3})
    sdict = ScopedDict(base)
    sdict.push_scope(host)
    st = VMState(names=sdict, max_ops_evaluated=5000)
    res = outcome(lambda: PARSER.parse(prog).eval(st) if PARSER.parse(prog) is not None else None)
    record('count', prog, res, st.ops_evaluated, len(sdict.scopes), sdict.scopes[0] is base,
           sdict.scopes[1] is host, canon(host), host.log)

# ---------------------------------------------------------------- 4. host mappings
HOST_PROGS = [
    'a', 'b', 'a + b', 'len', 'len(a)', 'zz', 'a = 5\na', 'b += "x"\nb', 'zz += 1',
    'f = a => a + b\nf("Q")', 'f = q => a\nf(1)\nq', 'boom', 'f = boom => boom\nf(1)',
    'f = v => boom\nf(1)', '[1, 2] | map(a => a + b)', 'c = a\nc', 'f = len => len + zz\nf(1)',
]
for cls in (dict, OrderedDict, LogDict, LyingDict, BoomDict):
    for prog in HOST_PROGS:
        names = cls({'a': 'A', 'b': 'B'})
        ev('host-' + cls.__name__, prog, names=names)

# list valued names: the very same object must be mutated / kept
for prog in ['push(l, 4)\nl', 'f = l => push(l, 9)\nf(l)\nl', 'f = l => push(l, 9)\nf([0])\nl',
             'm = l\npush(m, 4)\nl', 'l | map(v => push(l, v))\nl', 'f = v => l\nf(1)']:
    lst = [1, 2]
    names = {'l': lst}
    res = outcome(lambda: PARSER.eval(prog, names=names))
    is_same = None
    try:
        is_same = PARSER.eval(prog, names={'l': lst}) is lst
    except Exception as e:  # noqa
        is_same = type(e).__name__
    record('identity', prog, res, canon(lst), names['l'] is lst, is_same, canon(names))

# ---------------------------------------------------------------- 5. callbacks
for prog in [
    'cb(v => v + 1)', 'cb(v => v + k)', 'cb(v => 1 / v)', 'cb((a, b) => a)', 'cb(v => cb2(v))',
    'k = 10\ncb(v => v + k)', 'cb(v => inner(w => w + v))', 'cb(cb)', 'cb(v => v)\nv',
    'note(1) + note(2)', 'f = a => note(a) + note(k)\nf(5) + f(6)', 'cb(v => note(v))',
    '[3, 4] | map(v => note(v))', 'cb(v => zz)',
]:
    log = []

    def cb(f, log=log):
        log.append(('cb', canon(f)))
        rs = []
        for arg in (0, 1, 'x'):
            try:
                r = f(arg)
                rs.append(('ok', canon(r)))
            except BaseException as e:  # noqa
                rs.append(('exc', type(e).__name__, str(e)))
            log.append(('cb-call', canon(arg), rs[-1]))
        return len(rs)

    def cb2(v, log=log):
        log.append(('cb2', canon(v)))
        return [v]

    def inner(g, log=log):
        log.append(('inner', canon(g)))
        return g(100)

    def note(v, log=log):
        log.append(('note', canon(v)))
        return v

    names = LogDict({'cb': cb, 'cb2': cb2, 'inner': inner, 'note': note, 'k': 7})
    res = outcome(lambda: PARSER.eval(prog, names=names, max_ops_evaluated=400))
    record('callback', prog, res, log, names.log, canon(names))

# lambdas handed back to the host and called after eval finished / names changed
names = LogDict({'y': 1})
f = PARSER.eval('x => x + y', names=names)
record('late', outcome(lambda: f(1)))
names['y'] = 50
record('late', outcome(lambda: f(1)), outcome(lambda: f()), outcome(lambda: f(1, 2, 3)))
dict.__delitem__(names, 'y')
record('late', outcome(lambda: f(1)), outcome(lambda: f('s')), names.log)
g = PARSER.eval('(a, b) => (c => [a, b, c])', names={})
h = g(1, 2)
record('late', outcome(lambda: h(3)), outcome(lambda: g(1)(2)), canon(g), canon(h))
few = PARSER.eval('f = n => n + 1\nf', max_ops_evaluated=12)
record('late-budget', [outcome(lambda: few(i)) for i in range(6)])

# ---------------------------------------------------------------- 6. ast_names
body = PARSER.parse('c = a + b\nc * 2')
fn = LambdaOp(args=[NameOp('a'), NameOp('b')], expr=body)
leak = LambdaOp(args=[NameOp('a')], expr=PARSER.parse('a = a + 1\nt = a\na += x\na'))
for prog in ['f(1, 2)', 'f(1, 2)\nc', 'c = 7\nf(1, 2) + c', 'f(1)', 'f()', 'f(1, 2, 3)',
             'g(1)', 'g(1)\nt', 'g(1)\na', 'a = 10\ng(1) + a', 'x = 100\ng(1)', 'g(g(1))',
             '[1, 2] | map(v => g(v))', 'k', 'k + 1', 'k = 2\nk']:
    names = LogDict({'x': 5})
    ev('ast', prog, names=names,
       ast_names={'f': fn, 'g': leak, 'k': PARSER.parse('x * 2')})
    ev('ast-none', prog, names=None, ast_names={'f': fn, 'g': leak})

# ---------------------------------------------------------------- 7. the two classes directly
outer, mid = LogDict({'a': 1, 'b': 2}), LogDict({'b': 20})
s = ScopedDict(outer)
record('sd', canon(s), s.scopes[0] is outer, sorted(vars(s)))
s.push_scope(mid)
for key in ('a', 'b', 'c', 1, None, ('t',), 1.5):
    record('sd-get', canon(key), outcome(lambda: s[key]))
record('sd-unhashable', outcome(lambda: s[[1]]), outcome(lambda: ScopedDict([[1]])[1]),
       outcome(lambda: ScopedDict('abc')['b']), outcome(lambda: ScopedDict(None)['b']))
s['z'] = 26
s['a'] = 'shadow'
record('sd-set', canon(s), outer.log, mid.log)
inner_scope = {'a': 'in'}
with s.make_scope(inner_scope) as got:
    record('sd-with', got is s, len(s.scopes), s.scopes[-1] is inner_scope, canon(s['a']))
    got['n'] = 1
    with s.make_scope({}) as got2:
        got2['n'] = 2
        record('sd-with2', got2 is s, len(s.scopes), canon(s['n']))
    record('sd-with3', len(s.scopes), canon(s['n']))
record('sd-after', canon(s), canon(inner_scope), s.scopes[-1] is mid)
for exc in (ValueError('v'), KeyError('k'), StopIteration('si'), GeneratorExit(), KeyboardInterrupt()):
    def run(exc=exc):
        with s.make_scope({'e': 1}):
            raise exc
    record('sd-exc', outcome(run), len(s.scopes), s.scopes[-1] is mid)


def early_return():
    for i in range(3):
        with s.make_scope({'i': i}):
            if i == 1:
                return s['i'], len(s.scopes)


record('sd-return', outcome(early_return), len(s.scopes))
cm = s.make_scope({'unused': 1})
record('sd-lazy', len(s.scopes), type(cm).__name__, hasattr(cm, '__enter__'), hasattr(cm, '__exit__'))
record('sd-enter', cm.__enter__() is s, len(s.scopes), cm.__exit__(None, None, None), len(s.scopes))
record('sd-reenter', outcome(lambda: cm.__enter__()), len(s.scopes))


class NoAppend:
    scopes = ()
    push_scope = ScopedDict.push_scope
    pop_scope = ScopedDict.pop_scope
    make_scope = ScopedDict.make_scope
    __getitem__ = ScopedDict.__getitem__


def failing_push():
    with NoAppend().make_scope({}):
        return 'entered'


record('sd-pushfail', outcome(failing_push), outcome(lambda: NoAppend()['q']))
empty = ScopedDict({})
empty.pop_scope()
record('sd-empty', outcome(lambda: empty['a']), outcome(lambda: empty.pop_scope()),
       outcome(lambda: empty.__setitem__('a', 1)))


def pop_inside():
    t = ScopedDict({'a': 1})
    with t.make_scope({'b': 2}):
        t.pop_scope()
        t.pop_scope()
    return 'unreached'


record('sd-popinside', outcome(pop_inside))
record('sd-meta', sorted(k for k in vars(ScopedDict) if not k.startswith('__') or k in (
    '__init__', '__getitem__', '__setitem__', '__slots__')), hasattr(ScopedDict, '__slots__'),
    isinstance(vars(ScopedDict)['make_scope'], types.FunctionType),
    ScopedDict.make_scope.__name__, ScopedDict.__getitem__.__code__.co_varnames[:2],
    ScopedDict.make_scope.__wrapped__.__code__.co_varnames[:2],
    ScopedDict.push_scope.__code__.co_varnames, ScopedDict.__setitem__.__code__.co_varnames)

v1, v2 = VMState(), VMState()
record('vm', repr(v1.ops_evaluated), v1.max_ops_evaluated, type(v1.names).__name__, canon(v1.names),
       v1.names is not v2.names, v1.names.scopes[0] is not v2.names.scopes[0],
       [f for f in VMState.__dataclass_fields__], outcome(lambda: VMState(1, 2, 3, 4)),
       canon(VMState(names=s, ops_evaluated=3, max_ops_evaluated=9).names),
       VMState(max_ops_evaluated=3) == VMState(max_ops_evaluated=3) if False else 'skip-eq',
       hasattr(VMState, '__slots__'), VMState.__eq__ is not object.__eq__,
       repr(VMState(names=None)))
v1.names['q'] = 1
record('vm-iso', canon(v1.names), canon(v2.names), canon(VMState().names))

# ---------------------------------------------------------------- 8. parse / list_names
for prog in LAMBDA_PROGRAMS[:25]:
    record('parse', prog, outcome(lambda: repr(PARSER.parse(prog))),
           outcome(lambda: list(PARSER.list_names(prog))))

print('OUTCOMES', len(OUT))
print('DIGEST', hashlib.sha256(repr(OUT).encode('utf-8')).hexdigest())
