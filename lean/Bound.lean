/-
C03, lemma L2 (DESIGN 8): if every step maps a heap whose containers are all within the bound B to a heap
whose containers are all within B (the object invariant TSI-6, an obligation at every write and every
escape point of every function under contract), so does every finite sequence of steps.
-/
namespace Bound

def AllWithin (B : Nat) (heap : List Nat) : Prop := ∀ n ∈ heap, n ≤ B

def StepOk (B : Nat) (step : List Nat → List Nat) : Prop := ∀ h, AllWithin B h → AllWithin B (step h)

def runAll : List (List Nat → List Nat) → List Nat → List Nat
  | [], h => h
  | s :: rest, h => runAll rest (s h)

theorem runAll_within (B : Nat) :
    ∀ (steps : List (List Nat → List Nat)) (h : List Nat),
      (∀ s ∈ steps, StepOk B s) → AllWithin B h → AllWithin B (runAll steps h) := by
  intro steps
  induction steps with
  | nil => intro h _ hh; simpa [runAll] using hh
  | cons s rest ih =>
    intro h hs hh
    simp only [runAll]
    apply ih
    · intro t ht; exact hs t (List.mem_cons_of_mem _ ht)
    · exact hs s (List.mem_cons_self) h hh

end Bound
