/-
C10, lemma L3 (DESIGN 8): a scope stack that every callee returns as it found it - on normal AND on
exceptional exit (two-state invariant TSI-3, an obligation on every function under contract) - is
restored by push / body / pop whatever the body does.
-/
namespace Stack

/-- outcome of running a body on a stack: the stack afterwards and whether it raised -/
structure Result (α : Type) where
  stack : List α
  raised : Bool

/-- TSI-3 for a body: same stack afterwards, raised or not -/
def Preserves {α : Type} (body : List α → Result α) : Prop := ∀ s, (body s).stack = s

/-- make_scope: push, run the body, pop in a finally block -/
def withScope {α : Type} (x : α) (body : List α → Result α) (s : List α) : Result α :=
  let r := body (x :: s)
  { stack := r.stack.tail, raised := r.raised }

theorem withScope_restores {α : Type} (x : α) (body : List α → Result α) (h : Preserves body) :
    Preserves (withScope x body) := by
  intro s
  simp [withScope, h (x :: s)]

/-- sequential composition keeps the invariant (used for loops over arguments / lines) -/
def seq {α : Type} (f g : List α → Result α) (s : List α) : Result α :=
  let r := f s
  if r.raised then r else g r.stack

theorem seq_preserves {α : Type} (f g : List α → Result α) (hf : Preserves f) (hg : Preserves g) :
    Preserves (seq f g) := by
  intro s
  simp only [seq]
  split
  · exact hf s
  · rw [hf s]; exact hg s

end Stack
