/-
C01, lemma L1 (DESIGN 8): exactness, monotonicity in N and prefix-of-effects of a budgeted evaluation.

An evaluation is abstracted as a process: it returns, fails with another error, performs a host-visible
effect, or STARTS ONE OPERATION (`charge`).  `run N c p` executes p with c operations already charged
under budget N; a charge aborts iff c + 1 ≥ N - exactly the contract O1 of Op.eval
(`ops' = ops + 1`, raise iff `ops' ≥ max`, nothing else changed), and the only budget-dependent behaviour of
the interpreter (frame obligation F1: nothing else reads or writes the two budget fields).
The link to the code is those obligations, discharged on the real functions by ./check C01.
-/
namespace Budget

inductive Proc where
  | done   : Nat → Proc
  | fail   : Proc
  | effect : Nat → Proc → Proc
  | charge : Proc → Proc

inductive Outcome where
  | value : Nat → Outcome
  | error : Outcome
  | limit : Outcome
deriving DecidableEq

def run (N : Nat) : Nat → Proc → Outcome × List Nat
  | _, .done v => (.value v, [])
  | _, .fail => (.error, [])
  | c, .effect e p => ((run N c p).1, e :: (run N c p).2)
  | c, .charge p => if N ≤ c + 1 then (.limit, []) else run N (c + 1) p

/-- number of operations a process starts when nothing stops it -/
def charges : Proc → Nat
  | .done _ => 0
  | .fail => 0
  | .effect _ p => charges p
  | .charge p => charges p + 1

/-- a run that does not hit the limit under N runs identically under every larger budget -/
theorem mono {N N' : Nat} (h : N ≤ N') :
    ∀ (p : Proc) (c : Nat), (run N c p).1 ≠ Outcome.limit → run N' c p = run N c p := by
  intro p
  induction p with
  | done v => intro c _; simp [run]
  | fail => intro c _; simp [run]
  | effect e p ih =>
    intro c hne
    simp [run] at hne ⊢
    have := ih c hne
    simp [this]
  | charge p ih =>
    intro c hne
    by_cases hc : N ≤ c + 1
    · simp [run, hc] at hne
    · simp [run, hc] at hne ⊢
      by_cases hc2 : N' ≤ c + 1
      · -- the larger budget cannot be reached earlier than the smaller one
        exact absurd (Nat.le_trans h hc2) hc
      · simp [hc2]; exact ih (c + 1) hne

/-- the host-visible effects of a run under N are a prefix of those under any larger budget -/
theorem prefix_effects {N N' : Nat} (h : N ≤ N') :
    ∀ (p : Proc) (c : Nat), (run N c p).2 <+: (run N' c p).2 := by
  intro p
  induction p with
  | done v => intro c; simp [run]
  | fail => intro c; simp [run]
  | effect e p ih =>
    intro c
    simp [run]
    exact ih c
  | charge p ih =>
    intro c
    by_cases hc : N ≤ c + 1
    · simp [run, hc]
    · by_cases hc2 : N' ≤ c + 1
      · exact absurd (Nat.le_trans h hc2) hc
      · simp [run, hc, hc2]; exact ih (c + 1)

/-- exactness (started below the limit): the limit error is raised iff the program starts at least
    N - c further operations, i.e. it returns normally only if it needs fewer than N -/
theorem exact (N : Nat) :
    ∀ (p : Proc) (c : Nat), c < N → ((run N c p).1 = Outcome.limit ↔ N ≤ c + charges p) := by
  intro p
  induction p with
  | done v => intro c hc; simp [run, charges]; omega
  | fail => intro c hc; simp [run, charges]; omega
  | effect e p ih =>
    intro c hc
    simp [run, charges]
    exact ih c hc
  | charge p ih =>
    intro c hc
    by_cases h1 : N ≤ c + 1
    · simp [run, h1, charges]; omega
    · simp [run, h1, charges]
      have := ih (c + 1) (by omega)
      constructor
      · intro h; have := this.mp h; omega
      · intro h; apply this.mpr; omega

end Budget
