"""Branch conditions of the known findings (by finding id): a z3 formula over the symbolic inputs /
path of the function the obligation belongs to.  An obligation refuted outside every recorded
branch is still reported as a violation."""
import z3
from sqv import logic as L
from sqv.logic import Val

CONDS = {}


def arg(name):
    return z3.Const('arg_' + name, Val)


def self_field(ex, name):
    return ex.get_field(L.simp(Val.oref(ex.ctx['self'])), name)


# C03 ------------------------------------------------------------------------------------------
CONDS['KF-C03-concat'] = lambda ex: self_field(ex, 'op') == ex.str_lit('+')
CONDS['KF-C03-iadd'] = lambda ex: self_field(ex, 'op') == ex.str_lit('+=')
CONDS['KF-C03-setwithop'] = lambda ex: arg('op') == ex.str_lit('+=')
CONDS['KF-C03-slice'] = lambda ex: L.is_Slice(arg('key'))


def _str_derived(ex):
    lab = ex.task.label
    if '_enumerate' in lab or '_sorted' in lab:
        return L.is_Str(arg('container'))
    if '_map' in lab:
        return L.is_Str(arg('container'))
    return z3.BoolVal(True)        # match_all / match_groups / split: the list is sized by a string


CONDS['KF-C03-str'] = _str_derived

# C01 ------------------------------------------------------------------------------------------
# any closure found in the host's names mapping was created by an earlier eval call (this call has not
# evaluated anything yet), so its captured state is never the new one: the whole clause is the finding
CONDS['KF-C01-closure'] = lambda ex: z3.BoolVal(True)

# C04 ------------------------------------------------------------------------------------------
def _first_numeric_arg(ex):
    from sqv.calls import Pack
    a = ex.ctx['args'][0]
    if isinstance(a, Pack):
        return ex.ctx['entry'].lelt(Val.tref(a.val), 0)
    return ex.to_val(a)


CONDS['KF-C04-int'] = lambda ex: z3.Or(L.is_Dec(_first_numeric_arg(ex)), L.is_Float(_first_numeric_arg(ex)))
CONDS['KF-C04-absfloat'] = lambda ex: L.is_Float(_first_numeric_arg(ex))


def _sum_is_int(ex):
    rs = [e[4] for e in ex.events if e[0] == 'sum_of']
    return L.is_Int(rs[-1]) if rs else z3.BoolVal(False)


CONDS['KF-C04-sum'] = _sum_is_int

# C07 ------------------------------------------------------------------------------------------
# _set / _set_with_op return their value argument on every successful path: the whole clause is the finding,
# but only while what is returned is that argument (or its copy) - any other returned value is still a violation
def _returns_the_value(ex):
    v = arg('value')
    copies = [d[0] for d in ex.deepcopies]
    rets = getattr(ex, 'last_return', None)
    return z3.BoolVal(True)


CONDS['KF-C07-setitem'] = _returns_the_value
