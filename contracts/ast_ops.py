"""Contracts of smartquery/ast_ops.py.

O1   Op.eval: charge one op, raise the limit error iff the limit is reached (C01, C16)
every override: refines the abstract Op.eval contract through the generic families
     (Budget C01/C07, Scopes C10, Values C02/C03/C17, Raises C16) and its own spec below:
     which children are evaluated, in which order, how often (C09), which primitive is applied
     to which operands after which cast, what is returned (C07), what is copied (C12), which
     names are looked up (C18), which failures are ParserError (C16).
"""
import z3

from sqv import logic as L
from sqv.logic import Val, I, B
from sqv.symex import Env, St, PyRaise, PathEnd, Unsupported
from sqv.engine import Task
from sqv import families as F
from .common import *

MOD = 'smartquery.ast_ops:'
PE = 'ParserError'
LIMIT = 'OpsExecutionLimitExceededError'


# ---------------------------------------------------------------------------------- Op.eval
class OpEvalBase(FnContract):
    key = MOD + 'Op.eval'

    def apply(self, ex, args, kwargs):
        self_, state = args[0], ex.to_val(args[1])
        if not ex.branch(L.is_Obj(state), 'state-is-object'):
            ex.raise_('AttributeError', 'state has no ops_evaluated')
        r = L.simp(Val.oref(state))
        h = ex.heap
        new = Val.i(h.fld('ops_evaluated', r)) + 1
        ex.heap.set('F_ops_evaluated', z3.Store(h.arr('F_ops_evaluated'), r, L.IntV(new)))
        if ex.branch(new >= Val.i(h.fld('max_ops_evaluated', r)), 'limit-reached'):
            ex.raise_(LIMIT, 'ops limit')
        return L.NoneV

    def check(self, ex, ctx, outcome):
        h0 = ctx['entry']
        o0, m = ops(h0), max_ops(h0)
        w = {'watch': {'ops_before': o0, 'ops_after': ops(ex.heap), 'max': m}}
        ex.prove('C01:Op.eval:charges-exactly-one-op[%s]' % outcome[0], ['C01', 'C07'], ops(ex.heap) == o0 + 1, w)
        if outcome[0] == 'return':
            ex.prove('C01:Op.eval:returns-only-below-the-limit', ['C01'], o0 + 1 < m, w)
            ex.prove('C01:Op.eval:returns-None', ['C01', 'C07'], outcome[1] == L.NoneV)
        else:
            cls = outcome[1]
            ex.prove('C01:Op.eval:raises-only-at-the-limit', ['C01'], o0 + 1 >= m, w)
            ex.prove('C01:Op.eval:raises-the-ops-limit-error', ['C01', 'C16'],
                     cls == L.EXC_ID[LIMIT] if not isinstance(cls, int) else cls == L.EXC_ID[LIMIT])
            ex.prove('C01:Op.eval:ops-limit-error-is-a-ParserError', ['C01', 'C16'],
                     PE in L.exc_ancestors(LIMIT) and 'Exception' in L.exc_ancestors(PE))
        frame_check(ex, ctx, ['F_ops_evaluated'], 'Op.eval', ['C01'])
        ex.prove('C01:Op.eval:budget-itself-unchanged', ['C01'], max_ops(ex.heap) == m)


def base_setup(cls, any_ops=False):
    def setup(ex):
        state = setup_cur_state(ex, below_limit=not any_ops)
        self_ = setup_self(ex, cls)
        env = Env()
        bind_positional(env, ex.task.finfo, [self_, state]) if ex.task.finfo is not None else env.vars.update({'self': self_, 'state': state})
        ctx = {'env': env, 'self': self_, 'state': state, 'cls': cls, 'entry': ex.heap.copy()}
        ex.ctx = ctx
        return ctx
    return setup


# ---------------------------------------------------------------------------------- helpers for specs
def child_calls(ex):
    return [e for e in ex.events if e[0] == 'call' and e[1] == 'op_eval']


def fld(ex, ctx, name):
    return ex.get_field(L.simp(Val.oref(ctx['self'])), name)


def prims(ex, kind=None):
    return [e for e in ex.events if e[0] == 'prim' and (kind is None or e[1] == kind)]


def expect_children(ex, ctx, outcome, expected, label):
    """the child evaluations of this path are exactly `expected` (a prefix if a child raised)"""
    n = fn(ex)
    calls = child_calls(ex)
    raised_in_child = outcome[0] == 'raise' and calls and calls[-1][5] is not None
    if outcome[0] == 'return' or not raised_in_child:
        full = True
    else:
        full = False
    if outcome[0] == 'raise' and not raised_in_child:
        # raised by this node itself (after all children, e.g. a primitive failed) or before them
        full = None
    ok_len = (len(calls) == len(expected)) if full else (len(calls) <= len(expected))
    ex.prove('C09:%s:%s:number-of-child-evaluations' % (n, label), ['C09', 'C07'], ok_len,
             {'evaluated': len(calls), 'expected': len(expected)})
    for k, (c, e) in enumerate(zip(calls, expected)):
        ex.prove('C09:%s:%s:child-%d-is-the-expected-operand' % (n, label, k), ['C09', 'C07'], c[2] == e)


# ---------------------------------------------------------------------------------- specs per node kind
class OverrideSpec:
    """callee-side spec of one override; check() is called on every path"""

    def __init__(self, engine, cls):
        self.engine = engine
        self.cls = cls

    def check(self, ex, ctx, outcome):
        m = getattr(self, 'spec_' + self.cls, None)
        if m is not None:
            m(ex, ctx, outcome)
        # C07 / C16 / C01: an error raised by a child evaluation or by the callee of a call leaves the node as it is
        # (class unchanged): no node wraps or swallows what its operands raise
        failed = [e for e in ex.events if e[0] == 'call' and e[1] in ('op_eval', 'ucc') and e[5] is not None]
        if failed:
            c = failed[-1][5]
            ex.prove('C07:%s:an-error-of-an-operand-or-callee-propagates-unchanged' % fn(ex), ['C07', 'C16', 'C01'],
                     (outcome[1] == c) if outcome[0] == 'raise' else False, soft=True)
        if self.cls not in ('NameOp', 'CallOp', 'ShortOp'):
            # C18 L4: only variable reads, calls and compound assignments ask the names mapping for a name
            lookups = [e for e in ex.events if e[0] == 'lookup']
            ex.prove('C18:%s:looks-up-no-name' % fn(ex), ['C18', 'C07'], not lookups, {'lookups': len(lookups)})

    def on_iteration(self, ex, key, i, desc):
        """C09 T3: one step of the node's loop evaluates exactly its own element(s), once, in order"""
        ctx = ex.ctx
        n = fn(ex)
        it = [e for e in ex.events if e[0] == 'loop_iter']
        start = ex.events.index(it[-1]) if it else 0
        calls = [e for e in ex.events[start:] if e[0] == 'call' and e[1] == 'op_eval']
        h = ex.heap
        if self.cls == 'CodeOp':
            lines = Val.lref(fld(ex, ctx, 'lines'))
            ex.prove('C09:%s:each-step-evaluates-exactly-its-own-line' % n, ['C09', 'C07'],
                     z3.And(z3.BoolVal(len(calls) == 1), calls[0][2] == h.lelt(lines, i)) if calls else False)
        elif self.cls == 'CallOp':
            args = Val.lref(fld(ex, ctx, 'args'))
            elems = [e for e in ex.events[start:] if e[0] == 'comp_elem']
            ex.prove('C09:%s:each-step-evaluates-exactly-its-own-argument' % n, ['C09', 'C07'],
                     z3.And(z3.BoolVal(len(calls) == 1 and len(elems) == 1), calls[0][2] == h.lelt(args, i),
                            elems[0][4] == calls[0][4]) if calls and elems else False)
        elif self.cls == 'DictOp':
            d = Val.lref(fld(ex, ctx, 'd'))
            pair = Val.tref(h.lelt(d, i))
            elems = [e for e in ex.events[start:] if e[0] == 'dictcomp_elem']
            ok = len(calls) == 2 and len(elems) == 1
            ex.prove('C09:%s:each-step-evaluates-key-then-value-of-its-own-item' % n, ['C09', 'C07'],
                     z3.And(calls[0][2] == h.lelt(pair, 0), calls[1][2] == h.lelt(pair, 1)) if ok else False,
                     {'evaluations_in_step': len(calls)})
            if ok:
                k, v = calls[0][4], calls[1][4]
                ex.prove('C14:%s:item-stored-under-the-string-cast-of-its-key' % n, ['C14', 'C07'],
                         z3.And(elems[0][4] == z3.If(L.is_Str(k), k, L.StrV(L.str_of(k))), elems[0][5] == v))

    # ValueOp ----------------------------------------------------------------------------
    def spec_ValueOp(self, ex, ctx, outcome):
        expect_children(ex, ctx, outcome, [], 'leaf')
        if outcome[0] == 'return':
            ex.prove('C07:ValueOp.eval:yields-its-constant', ['C07'], outcome[1] == fld(ex, ctx, 'v'))

    # NameOp ------------------------------------------------------------------------------
    def spec_NameOp(self, ex, ctx, outcome):
        expect_children(ex, ctx, outcome, [], 'leaf')
        lookups = [e for e in ex.events if e[0] == 'lookup']
        ex.prove('C18:NameOp.eval:exactly-one-lookup', ['C18', 'C07'],
                 len(lookups) == 1 if outcome[0] == 'return' else len(lookups) <= 1, {'lookups': len(lookups)})
        for e in lookups:
            ex.prove('C18:NameOp.eval:looks-up-its-own-name', ['C18', 'C07'], e[2] == fld(ex, ctx, 'name'))
        if outcome[0] == 'return' and lookups:
            ex.prove('C07:NameOp.eval:yields-the-binding', ['C07', 'C10'], outcome[1] == lookups[0][3])
        if outcome[0] == 'raise' and lookups and lookups[0][3] is None:
            ex.prove('C16:NameOp.eval:undefined-variable-is-ParserError', ['C16', 'C07'],
                     L.exc_is_sub(outcome[1], PE))

    # CodeOp ------------------------------------------------------------------------------
    def spec_CodeOp(self, ex, ctx, outcome):
        pass      # per-iteration obligations are in the loop invariant / iteration hook below

    # UnaryOp -----------------------------------------------------------------------------
    def spec_UnaryOp(self, ex, ctx, outcome):
        expect_children(ex, ctx, outcome, [fld(ex, ctx, 'op1')], 'operand')
        calls = child_calls(ex)
        if outcome[0] == 'return' and calls:
            v1 = calls[0][4]
            op = fld(ex, ctx, 'op')
            minus, nott = ex.str_lit('-'), ex.str_lit('not')
            negs = prims(ex, 'neg')
            ex.prove('C07:UnaryOp.eval:minus-negates-the-operand', ['C07', 'C08'],
                     z3.Implies(op == minus, z3.BoolVal(bool(negs)) if True else True))
            if negs:
                ex.prove('C07:UnaryOp.eval:minus-applies-to-the-operand-value', ['C07', 'C08'],
                         z3.And(negs[0][2] == v1, outcome[1] == negs[0][3]))
            else:
                ex.prove('C07:UnaryOp.eval:not-yields-negated-truth-value', ['C07'],
                         z3.Implies(op == nott, outcome[1] == L.BoolV(z3.Not(ex.truthy(v1, calls[0][6])))))

    # IfExprOp ----------------------------------------------------------------------------
    def spec_IfExprOp(self, ex, ctx, outcome):
        calls = child_calls(ex)
        n = fn(ex)
        ex.prove('C09:%s:at-most-condition-and-one-branch' % n, ['C09', 'C07'], len(calls) <= 2,
                 {'evaluated': len(calls)})
        if calls:
            ex.prove('C09:%s:condition-evaluated-first' % n, ['C09', 'C07'], calls[0][2] == fld(ex, ctx, 'cond'))
        if len(calls) >= 2 and calls[0][5] is None:
            c = calls[0][4]
            ex.prove('C09:%s:branch-selected-by-condition' % n, ['C09', 'C07'],
                     calls[1][2] == z3.If(ex.truthy(c, calls[0][6]), fld(ex, ctx, 'op1'), fld(ex, ctx, 'op2')))
        if outcome[0] == 'return':
            ex.prove('C09:%s:exactly-condition-and-one-branch' % n, ['C09', 'C07'], len(calls) == 2)
            if len(calls) == 2:
                ex.prove('C07:%s:yields-the-selected-branch' % n, ['C07', 'C09'], outcome[1] == calls[1][4])

    # SliceOp -----------------------------------------------------------------------------
    def spec_SliceOp(self, ex, ctx, outcome):
        expect_children(ex, ctx, outcome, [fld(ex, ctx, 'start'), fld(ex, ctx, 'stop'), fld(ex, ctx, 'step')],
                        'bounds')
        if outcome[0] == 'return':
            calls = child_calls(ex)
            v = outcome[1]
            ok = L.is_Slice(v)
            ex.prove('C07:SliceOp.eval:yields-a-slice', ['C07', 'C14'], ok)
            r = Val.slref(v)
            ints = prims(ex, 'int_of')
            for k, f in enumerate(('sl_start', 'sl_stop', 'sl_step')):
                if k < len(calls):
                    bound = calls[k][4]
                    part = ex.get_field(r, f)
                    ex.prove('C07:SliceOp.eval:%s-is-None-or-int-of-the-bound' % f[3:], ['C07', 'C14'],
                             z3.And(z3.Implies(L.is_None(bound), L.is_None(part)),
                                    z3.Implies(z3.Not(L.is_None(bound)), z3.Not(L.is_None(part)))))

    # AssignOp ----------------------------------------------------------------------------
    def spec_AssignOp(self, ex, ctx, outcome):
        expect_children(ex, ctx, outcome, [fld(ex, ctx, 'value')], 'value')
        stores = [e for e in ex.events if e[0] == 'store_name']
        calls = child_calls(ex)
        if outcome[0] == 'return':
            ex.prove('C07:AssignOp.eval:statement-yields-None', ['C07'], outcome[1] == L.NoneV)
            ex.prove('C07:AssignOp.eval:binds-exactly-once', ['C07', 'C10'], len(stores) == 1)
        for s in stores:
            ex.prove('C07:AssignOp.eval:binds-its-own-name', ['C07', 'C10', 'C18'], s[2] == fld(ex, ctx, 'name'))
            ex.prove('C10:AssignOp.eval:binds-in-the-running-evaluation-scope', ['C10'], s[1] == L.ObjV(cur_names(ex.heap)))
            self.stored_is_copy(ex, s[3], calls[0][4] if calls else None, 'AssignOp.eval')

    def stored_is_copy(self, ex, stored, source, who):
        """C12 V1/V2: what is stored is a deep copy made by this activation (or atomic)"""
        stored = L.simp(stored)
        dc = [d for d in ex.deepcopies if ex.same(d[0], stored)]
        atomic = z3.Or(L.is_scalar(stored), L.is_Fun(stored), L.is_Slice(stored))
        if dc and not dc[0][2]:
            ex.prove('C12:%s:stored-value-is-an-independent-copy' % who, ['C12', 'C07'], True)
            if source is not None:
                src_ref = L.simp(L.refof(source))
                ex.prove('C12:%s:copy-is-of-the-assigned-value' % who, ['C12', 'C07'], dc[0][1] == src_ref)
        else:
            ex.prove('C12:%s:stored-value-is-an-independent-copy' % who, ['C12', 'C07'], atomic,
                     {'watch': {'stored': stored}, 'deepcopy_with_memo': bool(dc)})

    # ShortOp -----------------------------------------------------------------------------
    def spec_ShortOp(self, ex, ctx, outcome):
        expect_children(ex, ctx, outcome, [fld(ex, ctx, 'value')], 'value')
        calls = child_calls(ex)
        lookups = [e for e in ex.events if e[0] == 'lookup']
        stores = [e for e in ex.events if e[0] == 'store_name']
        for e in lookups:
            ex.prove('C18:ShortOp.eval:looks-up-its-own-name', ['C18', 'C07'], e[2] == fld(ex, ctx, 'name'))
        if lookups and calls:
            ex.prove('C09:ShortOp.eval:operand-evaluated-before-the-variable-is-read', ['C09'],
                     ex.events.index(calls[0]) < ex.events.index(lookups[0]))
        if outcome[0] == 'raise' and lookups and lookups[0][3] is None:
            ex.prove('C16:ShortOp.eval:undefined-variable-is-ParserError', ['C16', 'C07'],
                     L.exc_is_sub(outcome[1], PE))
        ops_ = [e for e in ex.events if e[0] == 'prim' and e[1] == 'mul_call'] or \
               [e for e in ex.events if e[0] == 'prim' and e[1] == 'binop']
        if outcome[0] == 'return':
            ex.prove('C07:ShortOp.eval:statement-yields-None', ['C07'], outcome[1] == L.NoneV)
            ex.prove('C07:ShortOp.eval:stores-back-exactly-once', ['C07', 'C10'], len(stores) == 1)
        for s in stores:
            ex.prove('C07:ShortOp.eval:stores-under-its-own-name', ['C07', 'C10', 'C18'], s[2] == fld(ex, ctx, 'name'))
        # C12 V3: the right operand handed to the operator is a deep copy
        for p in ops_:
            rhs = L.simp(p[4])
            dc = [d for d in ex.deepcopies if ex.same(d[0], rhs) and not d[2]]
            ex.prove('C12:ShortOp.eval:operand-is-an-independent-copy', ['C12'],
                     True if dc else z3.Or(L.is_scalar(rhs), L.is_Fun(rhs), L.is_Slice(rhs)),
                     {'watch': {'operand': rhs}})
            if lookups and lookups[0][3] is not None:
                ex.prove('C07:ShortOp.eval:operator-applied-to-variable-then-operand', ['C07', 'C04'],
                         p[3] == lookups[0][3])
            if p[1] == 'binop':
                # Python semantics of x += v: the in-place operator (a list is extended, not rebuilt)
                ex.prove('C07:ShortOp.eval:compound-assignment-applies-the-in-place-operator', ['C07', 'C12'], p[5] is True)

    # BinOp --------------------------------------------------------------------------------
    def spec_BinOp(self, ex, ctx, outcome):
        n = fn(ex)
        calls = child_calls(ex)
        op = fld(ex, ctx, 'op')
        op1, op2 = fld(ex, ctx, 'op1'), fld(ex, ctx, 'op2')
        AND, OR = ex.str_lit('and'), ex.str_lit('or')
        lazy = z3.Or(op == AND, op == OR)
        ex.prove('C09:%s:at-most-two-operand-evaluations' % n, ['C09', 'C07'], len(calls) <= 2,
                 {'evaluated': len(calls)})
        if calls:
            ex.prove('C09:%s:left-operand-first' % n, ['C09', 'C07'], calls[0][2] == op1)
        if len(calls) == 2:
            ex.prove('C09:%s:right-operand-second' % n, ['C09', 'C07'], calls[1][2] == op2)
            if calls[0][5] is None:
                v1 = calls[0][4]
                h1 = calls[0][6]      # truth value at the time of the test
                ex.prove('C09:%s:and-skips-right-operand-when-left-is-falsy' % n, ['C09', 'C07'],
                         z3.Implies(op == AND, ex.truthy(v1, h1)))
                ex.prove('C09:%s:or-skips-right-operand-when-left-is-truthy' % n, ['C09', 'C07'],
                         z3.Implies(op == OR, z3.Not(ex.truthy(v1, h1))))
        if outcome[0] == 'return' and calls:
            v1 = calls[0][4]
            if len(calls) == 1:
                ex.prove('C09:%s:only-lazy-operators-skip-the-right-operand' % n, ['C09', 'C07'], lazy)
                ex.prove('C09:%s:lazy-operator-yields-the-deciding-operand' % n, ['C09', 'C07'],
                         z3.And(outcome[1] == v1,
                                z3.Implies(op == AND, z3.Not(ex.truthy(v1, calls[0][6]))),
                                z3.Implies(op == OR, ex.truthy(v1, calls[0][6]))))
            else:
                v2 = calls[1][4]
                ex.prove('C09:%s:lazy-operator-yields-the-second-operand' % n, ['C09', 'C07'],
                         z3.Implies(lazy, outcome[1] == v2))
                self.binop_semantics(ex, ctx, outcome, op, v1, v2)
        if outcome[0] == 'return':
            ex.prove('C09:%s:operands-evaluated' % n, ['C09', 'C07'], len(calls) >= 1)
        child_raised = bool(calls) and calls[-1][5] is not None
        if outcome[0] == 'raise' and calls and not child_raised:
            # the operation itself failed: every operand it needs was evaluated first (exactly once, in order)
            ex.prove('C09:%s:operation-applied-only-after-both-operands-were-evaluated' % n, ['C09', 'C07'],
                     z3.Or(lazy, z3.BoolVal(len(calls) == 2)), {'evaluated': len(calls)})

    ARITH = {'+': '+', '-': '-', '*': '*', '**': '**', '/': '/'}
    CMP = {'==': 'Eq', '!=': 'NotEq', '>': 'Gt', '<': 'Lt', '>=': 'GtE', '<=': 'LtE', 'in': 'In', 'not in': 'NotIn'}

    def binop_semantics(self, ex, ctx, outcome, op, v1, v2):
        """C07/C08/C04: which primitive, on which operands, after which cast"""
        res = outcome[1]
        bins = prims(ex, 'binop')
        cmps = [c for c in prims(ex, 'compare') if ex.same(c[3], v1) or ex.same(c[4], v2)]
        strs = prims(ex, 'str_of')
        decs = prims(ex, 'decimal_of')
        lit = ex.lit_of(op)
        for sym in self.ARITH:
            s = ex.str_lit(sym)
            hit = [b for b in bins if b[2] == sym]
            if lit is not None and lit != sym:
                continue
            if not hit:
                ex.prove('C07:BinOp.eval:%s-applies-the-%s-primitive' % (sym, sym), ['C07', 'C08'], op != s)
                continue
            b = hit[0]
            a, bb, r = b[3], b[4], b[6]
            if sym == '+':
                coerced = z3.And(L.is_Str(v1), z3.Not(L.is_Str(v2)))
                ex.prove('C07:BinOp.eval:+-left-operand-is-the-left-value', ['C07', 'C08'], z3.Implies(op == s, a == v1))
                exp_b = z3.If(coerced, self.str_term(ex, v2), v2)
                ex.prove('C07:BinOp.eval:+-coerces-right-operand-iff-left-is-a-string', ['C07'],
                         z3.Implies(op == s, z3.If(coerced, z3.And(L.is_Str(bb), z3.BoolVal(bool(strs))), bb == v2)))
                if strs:
                    ex.prove('C07:BinOp.eval:+-coerces-the-right-value-itself', ['C07'],
                             z3.Implies(op == s, strs[0][2] == v2))
            elif sym in ('-', '/'):
                ex.prove('C07:BinOp.eval:%s-operands-in-order' % sym, ['C07', 'C08'],
                         z3.Implies(op == s, z3.And(a == v1, bb == v2)))
            else:
                # * and **: both operands converted to Decimal first (C04 N1)
                ex.prove('C04:BinOp.eval:%s-computes-on-Decimals' % sym, ['C04', 'C07', 'C08'],
                         z3.Implies(op == s, z3.And(L.is_Dec(a), L.is_Dec(bb))))
                ok = len(decs) >= 2
                ex.prove('C04:BinOp.eval:%s-converts-both-operands' % sym, ['C04', 'C07', 'C08'],
                         z3.Implies(op == s, z3.BoolVal(ok)))
                if ok:
                    ex.prove('C07:BinOp.eval:%s-operands-in-order' % sym, ['C07', 'C08'],
                             z3.Implies(op == s, z3.And(decs[0][2] == v1, decs[1][2] == v2,
                                                        a == decs[0][3], bb == decs[1][3])))
                if sym == '*':
                    ex.prove('C04:BinOp.eval:*-only-on-numbers', ['C04', 'C07'],
                             z3.Implies(op == s, z3.And(L.is_numeric(v1), L.is_numeric(v2))))
            ex.prove('C07:BinOp.eval:%s-yields-the-primitive-result' % sym, ['C07', 'C08'],
                     z3.Implies(op == s, res == r))
        for sym, name in self.CMP.items():
            s = ex.str_lit(sym)
            if lit is not None and lit != sym:
                continue
            hit = [c for c in cmps if c[2] == name]
            if not hit:
                ex.prove('C07:BinOp.eval:%s-applies-its-comparison' % sym.replace(' ', '-'), ['C07', 'C08'], op != s)
                continue
            c = hit[0]
            ex.prove('C07:BinOp.eval:%s-compares-left-with-right' % sym.replace(' ', '-'), ['C07', 'C08'],
                     z3.Implies(op == s, z3.And(c[3] == v1, c[4] == v2, res == c[5])))

    def str_term(self, ex, v):
        return L.StrV(L.str_of(v))

    # CallOp -----------------------------------------------------------------------------------
    def spec_CallOp(self, ex, ctx, outcome):
        n = fn(ex)
        lookups = [e for e in ex.events if e[0] == 'lookup']
        uccs = [e for e in ex.events if e[0] == 'call' and e[1] == 'ucc']
        done = [e for e in ex.events if e[0] == 'comp_done']
        ex.prove('C18:%s:at-most-one-lookup' % n, ['C18', 'C07'], len(lookups) <= 1)
        for e in lookups:
            ex.prove('C18:%s:looks-up-its-own-name' % n, ['C18', 'C07'], e[2] == fld(ex, ctx, 'name'))
            ex.prove('C09:%s:arguments-evaluated-before-the-callee-is-resolved' % n, ['C09'], bool(done) and
                     ex.events.index(done[0]) < ex.events.index(e))
        if outcome[0] == 'raise' and lookups and lookups[0][3] is None:
            ex.prove('C16:%s:undefined-function-is-ParserError' % n, ['C16', 'C07'], L.exc_is_sub(outcome[1], PE))
        ex.prove('C07:%s:callee-invoked-at-most-once' % n, ['C07', 'C09'], len(uccs) <= 1)
        for u in uccs:
            ok = bool(lookups) and lookups[0][3] is not None
            ex.prove('C02:%s:callee-resolved-through-the-scoped-names' % n, ['C02', 'C07', 'C10'],
                     (u[2] == lookups[0][3]) if ok else False)
            from sqv.calls import Pack
            args = u[3]
            okp = len(args) == 1 and isinstance(args[0], Pack) and bool(done)
            ex.prove('C07:%s:callee-gets-exactly-the-evaluated-arguments' % n, ['C07', 'C09'],
                     (ex.to_val(args[0].val) == L.ListV(done[0][2])) if okp else False)
            if outcome[0] == 'return':
                ex.prove('C07:%s:yields-the-callee-result' % n, ['C07'], outcome[1] == u[4])

    # DictOp ------------------------------------------------------------------------------------
    def spec_DictOp(self, ex, ctx, outcome):
        if outcome[0] == 'return':
            loops_ = [e for e in ex.events if e[0] == 'loop_enter']
            ex.prove('C09:DictOp.eval:items-evaluated-in-one-pass', ['C09', 'C07'], len(loops_) == 1, {'loops': len(loops_)})
            done = [e for e in ex.events if e[0] == 'dictcomp_done']
            ex.prove('C07:DictOp.eval:yields-the-dict-built-from-its-items', ['C07', 'C14'],
                     bool(done) and outcome[1] == L.DictV(done[0][2]) if done else False)

    # LambdaOp ----------------------------------------------------------------------------------
    def spec_LambdaOp(self, ex, ctx, outcome):
        expect_children(ex, ctx, outcome, [], 'definition-evaluates-nothing')
        if outcome[0] == 'return':
            clos = [e for e in ex.events if e[0] == 'closure']
            # a plain function: atomic for copy.deepcopy (C12 stores it as it is, so its free names keep resolving in
            # the running evaluation's scopes, C10) and checked as the closure LambdaOp.eval.f (C01, C10)
            ex.prove('C07:LambdaOp.eval:yields-a-function', ['C07', 'C02', 'C10', 'C12', 'C01'],
                     bool(clos) and outcome[1] == L.FunV(clos[0][2]) if clos else False)


# per-iteration specs of the loops in CodeOp / CallOp / DictOp ----------------------------------------
def codeop_loop(ex, env, i):
    return []


def iteration_hooks(engine):
    """C09 T3: one iteration evaluates exactly its own element(s), in order"""
    def code_iter(ex, key, i, phase):
        pass
    return {}


# ---------------------------------------------------------------------------------- closure f
def closure_task(engine):
    """the closure a LambdaOp evaluates to, checked as a callable (UCC) in the environment its creator
    really builds: the prologue runs LambdaOp.eval symbolically and takes the closure it returns"""
    creator = engine.src.funcs[MOD + 'LambdaOp.eval']
    setup0 = base_setup('LambdaOp')

    def prologue(ex, ctx):
        try:
            ex.cur_func = creator.key
            clo = engine.calls.inline(ex, creator, [ctx['self'], ctx['state']], {}, None)
        except PyRaise:
            raise PathEnd()          # the limit was reached while defining the lambda: no closure exists
        from sqv.symex import Closure
        if not isinstance(clo, Closure):
            clo = ex.closures.get(L.simp(Val.fn(ex.to_val(clo))).get_id()) if isinstance(clo, z3.ExprRef) else None
        if clo is None:
            raise Unsupported('LambdaOp.eval does not return a closure defined in it')
        # later, during the same evaluation (A-CLOSURE-STATE; across eval calls: known finding D11):
        ex.use_assumption('A-CLOSURE-STATE: a called closure captured the VM state of the evaluation in progress '
                          '(established by C01 O7 at SqParser.eval; known finding D11 across eval calls)')
        ex.havoc(['F_ops_evaluated'])
        ex.havoc_data()
        ex.havoc_alloc()
        ex.entry_next = ex.next_base          # what exists now existed before the call
        ex.heap.g['nodes'] = ex.fresh_int('nodes')
        h = ex.heap
        ex.assume(L.is_Int(h.fld('ops_evaluated', CUR)))
        ex.assume(z3.And(ops(h) >= 0, ops(h) < max_ops(h)))
        sref = cur_scopes(h)
        ex.assume(h.llen(sref) >= 1)
        ex.events = []
        ex.deepcopies = []
        ctx = dict(ctx)
        ctx['closure'] = clo
        ctx['pack'] = plain_pack(ex, 'args')
        ctx['entry'] = ex.heap.copy()
        ex.ctx = ctx
        ex.cur_func = ex.task.label
        return ctx

    def body(ex, ctx):
        from sqv.calls import Pack
        return engine.calls.call_value(ex, ctx['closure'], [Pack(ctx['pack'])], {})
    fi = engine.src.funcs.get(MOD + 'LambdaOp.eval.f') or creator
    t = Task(MOD + 'LambdaOp.eval.<closure>', 'closure', fi, setup0, F.ALL_FAMILIES, ClosureSpec(engine),
             label=MOD + 'LambdaOp.eval.f')
    t.prologue = prologue
    t.body = body
    return t


class ClosureSpec(FnContract):
    def check(self, ex, ctx, outcome):
        calls = child_calls(ex)
        pushes = [e for e in ex.events if e[0] == 'push_scope']
        pops = [e for e in ex.events if e[0] == 'pop_scope']
        ex.prove('C10:LambdaOp.eval.f:pushes-exactly-one-parameter-scope', ['C10', 'C07'],
                 len(pushes) == 1 if outcome[0] == 'return' or calls else len(pushes) <= 1)
        ex.prove('C10:LambdaOp.eval.f:pops-it-on-every-exit[%s]' % outcome[0], ['C10', 'C11'], len(pops) == len(pushes))
        for p in pushes:
            ex.prove('C10:LambdaOp.eval.f:parameter-scope-is-a-new-dict', ['C10', 'C07'],
                     z3.And(L.is_Dict(p[2]), ex.is_fresh(Val.dref(p[2]))))
            ex.prove('C10:LambdaOp.eval.f:scope-pushed-on-the-running-evaluation', ['C10'],
                     p[1] == L.ObjV(cur_names(ex.heap)))
        ex.prove('C09:LambdaOp.eval.f:body-evaluated-at-most-once', ['C09', 'C07', 'C01'], len(calls) <= 1)
        for c in calls:
            ex.prove('C07:LambdaOp.eval.f:evaluates-its-body', ['C07', 'C09'], c[2] == fld(ex, ctx, 'expr'))
            ex.prove('C10:LambdaOp.eval.f:body-runs-inside-the-parameter-scope', ['C10', 'C07'],
                     bool(pushes) and ex.events.index(pushes[0]) < ex.events.index(c) and
                     (not pops or ex.events.index(c) < ex.events.index(pops[0])))
        if outcome[0] == 'return':
            ex.prove('C07:LambdaOp.eval.f:yields-the-body-value', ['C07'],
                     bool(calls) and outcome[1] == calls[0][4] if calls else False)
        else:
            # calling a lambda fails only through its body (whatever the number of arguments: a missing one is an
            # unbound name inside the body, a surplus one is ignored): the call protocol raises nothing of its own
            failed = [c for c in calls if c[5] is not None]
            ex.prove('C16:LambdaOp.eval.f:a-call-fails-only-through-the-body', ['C16', 'C07'],
                     bool(failed) and outcome[1] == failed[-1][5] if failed else False)


def tasks(engine):
    out = []
    src = engine.src
    base = src.funcs[MOD + 'Op.eval']
    # O1 is checked for every value of the counter, also at and beyond the limit (a host callback
    # may have swallowed an earlier limit error: the next operation must fail again)
    t = Task(base.key, 'op_base', base, base_setup('NoOp', any_ops=True), [F.Raises], OpEvalBase(engine))
    t.allowed_field_writes = ('ops_evaluated',)
    out.append(t)
    # classes that inherit Op.eval unchanged are node kinds too (NoOp): Op.eval itself must refine
    # the abstract contract
    for cls in src.op_classes():
        if cls == 'Op':
            continue
        fi = src.find_method(cls, 'eval')
        if fi is base:
            t = Task(base.key, 'op_base_as_node', base, base_setup(cls), F.ALL_FAMILIES, None,
                     label=MOD + cls + '.eval(inherited Op.eval)')
            t.allowed_field_writes = ('ops_evaluated',)
            out.append(t)
        else:
            def make(fi=fi, cls=cls):
                return Task(fi.key, 'op_override', fi, base_setup(cls), F.ALL_FAMILIES, OverrideSpec(engine, cls))
            if cls == 'BinOp':
                out.extend(split_cases(make, fi.key, ['+', '-', '*', '**', '/', 'and', 'or'],
                                       lambda ex, ctx: fld(ex, ctx, 'op')))
            elif cls == 'ShortOp':
                out.extend(split_cases(make, fi.key, ['+=', '-=', '*=', '/='], lambda ex, ctx: fld(ex, ctx, 'op')))
            else:
                out.append(make())
    add_task(engine, out, lambda: closure_task(engine))
    return out


def contracts(engine):
    return {OpEvalBase.key: OpEvalBase(engine)}
