"""Contracts of smartquery/sq_parser.py: SqParser.parse, .eval, .list_names (C01 O5/O7, C07, C10 Sc3/Sc5,
C11 H1/H2/H5, C17 K1-K3, C18 L1), with assumed contracts for the PLY objects they drive.

PARSE(text)  = parse_tree(text) / parse_fails(text): what yacc.parse builds for `text` when it is started
from the reset lexer state (lineno 1, bracket depth 0, no half-built tree).  A function of the text
alone - that is C11's claim about PLY, discharged by the resets (H1) plus the derived PLY frame
(sqv/parts_frames.py)."""
import z3

from sqv import logic as L
from sqv.logic import Val, I, B
from sqv.symex import Env, St, PyRaise, PathEnd, Unsupported, ReturnEx
from sqv.engine import Task
from sqv import families as F
from sqv.stubs import Stubs
from .common import *

MOD = 'smartquery.sq_parser:SqParser.'
parse_tree = L.UF('parse_tree', I, Val)         # text id -> tree (ObjV) or NoneV
parse_fails = L.UF('parse_fails', I, B)          # text id -> PARSE raises
token_at = L.UF('token_at', I, I, Val)           # (text id, k) -> k-th token object of the text (or None at the end)
CARRIED = ('lineno', 'paren_count', 'ast')       # lexer fields PLY reads but does not initialise itself
# what each carried field decides: line numbers in messages (C20), which line breaks are separators and hence
# which texts are accepted (C06, C15), which tree is returned (C17)
# what a parse yields depends on the carried lexer fields: every property about parse results relies on the resets
RESET_PROPS = {'lineno': ['C11', 'C20'], 'paren_count': ['C11', 'C06', 'C15', 'C07', 'C16', 'C17', 'C18', 'C20'],
               'ast': ['C11', 'C06', 'C17', 'C07', 'C15', 'C16', 'C18']}
RESET_VALUE = {'lineno': L.IntV(1), 'paren_count': L.IntV(0), 'ast': L.NoneV, 'lexpos': L.IntV(0)}


# ---------------------------------------------------------------------------------------------
# assumed contracts of the PLY objects (trusted base item 5; the frame is derived in parts_frames)
# ---------------------------------------------------------------------------------------------
def lexer_ref(ex, self_):
    sh = ex.engine.shapes
    v = ex.known(ex.get_field(L.simp(Val.oref(self_)), 'lex'))
    sh.assume(ex, v, sh.field_ty('SqParser', 'lex'))
    return L.simp(Val.oref(v))


def e_LRParser_parse(stubs, ex, recv, args, kwargs):
    """LRParser.parse(input=text, lexer=lx): drives lx over text, runs the p_* actions.
    requires (C11 H1): every carried lexer field holds its reset value
    ensures: lx.ast' = parse_tree(text) or raises; carried fields end in an unspecified state"""
    text = ex.to_val(kwargs.get('input', args[0] if args else L.NoneV))
    lx = ex.to_val(kwargs.get('lexer', args[1] if len(args) > 1 else L.NoneV))
    ok = z3.And(L.is_Str(text), L.is_Obj(lx))
    ex.prove('C11:%s:parser-driven-with-a-text-and-a-lexer' % fn(ex), ['C11', 'C17'], ok)
    lr = L.simp(Val.oref(lx))
    ex.event('ply_parse', recv, text, lx)
    for f in CARRIED:
        ex.prove('C11:%s:resets[%s]-before-the-parser-reads-it' % (fn(ex), f), RESET_PROPS[f],
                 ex.get_field(lr, f) == RESET_VALUE[f], {'watch': {f: ex.get_field(lr, f)}})
    ex.havoc(['F_lineno', 'F_paren_count', 'F_lexpos', 'F_ast'])
    ex.havoc_alloc()
    sid = Val.s(text)
    if ex.branch(parse_fails(sid), 'parse-fails'):
        cls = ex.fresh_int('exc')
        ex.assume(L.exc_is_sub(cls, 'Exception'))
        ex.event('raise', cls, 'yacc.parse')
        raise PyRaise(cls, 'yacc.parse')
    tree = parse_tree(sid)
    ex.heap.set('F_ast', z3.Store(ex.heap.arr('F_ast'), lr, tree))
    return L.NoneV


def e_Lexer_input(stubs, ex, recv, args, kwargs):
    text = ex.to_val(args[0])
    lr = L.simp(Val.oref(recv))
    ex.event('lex_input', recv, text)
    ex.heap.set('F_lexpos', z3.Store(ex.heap.arr('F_lexpos'), lr, L.IntV(0)))
    ex.heap.set('F_lexdata', z3.Store(ex.heap.arr('F_lexdata'), lr, text))
    ex.lex_tokens = 0
    return L.NoneV


def e_Lexer_token(stubs, ex, recv, args, kwargs):
    """Lexer.token(): the next token of the text given to input(), None at the end; runs the t_* rules
    (which may raise).  requires (first call): lineno / paren_count hold their reset values"""
    lr = L.simp(Val.oref(recv))
    k = getattr(ex, 'lex_tokens', None)
    ex.event('lex_token', recv)
    if getattr(ex, 'lex_first_token', True):
        ex.lex_first_token = False
        if getattr(ex, 'lex_check_resets', True):
            for f in ('lineno', 'paren_count'):
                ex.prove('C11:%s:resets[%s]-before-the-lexer-reads-it' % (fn(ex), f), RESET_PROPS[f] + ['C18'],
                         ex.get_field(lr, f) == RESET_VALUE[f], {'watch': {f: ex.get_field(lr, f)}})
    ex.havoc(['F_lineno', 'F_paren_count', 'F_lexpos'])
    ex.havoc_alloc()
    ex.may_raise(['Exception'], 't_* rule / t_error')
    if ex.branch(ex.fresh_bool('eof'), 'end-of-input'):
        return L.NoneV
    t = ex.alloc()
    sh = ex.engine.shapes
    ex.assume(L.cls_of(t) == sh.cid('LexToken'))
    ex.note_class(t, 'LexToken', exact=True)
    ex.assume(L.is_Str(ex.get_field(t, 'type')))
    ex.tokens_seen = getattr(ex, 'tokens_seen', [])
    ex.tokens_seen.append(t)
    return L.ObjV(t)


def cache_ref(c):
    return L.simp(Val.oref(c))


def e_SqParserCache___contains__(stubs, ex, recv, args, kwargs):
    key = ex.to_val(args[0])
    ex.event('cache_contains', recv, key)
    return ex.heap.dhas(cache_ref(recv), key)


def e_SqParserCache___getitem__(stubs, ex, recv, args, kwargs):
    key = ex.to_val(args[0])
    r = cache_ref(recv)
    ex.event('cache_get', recv, key)
    if not ex.branch(ex.heap.dhas(r, key), 'cache-has'):
        ex.raise_('KeyError', 'cache miss')
    v = ex.known(ex.heap.dval(r, key))
    # cache invariant (C17 K1): every entry is the tree of its key
    ex.assume(z3.Implies(L.is_Str(key), v == parse_tree(Val.s(key))))
    ex.use_assumption('A-CACHE-INV: a (pre-warmed) parse cache maps every key to the tree of that key; preserved by parse (C17 K1)')
    return v


def e_SqParserCache___setitem__(stubs, ex, recv, args, kwargs):
    key, val = ex.to_val(args[0]), ex.to_val(args[1])
    r = cache_ref(recv)
    ex.event('cache_set', recv, key, val)
    # any eviction policy: afterwards the mapping holds any subset of old + {key: val}
    h = ex.heap
    has2 = z3.Const(ex.fresh_name('cache_has'), z3.ArraySort(Val, B))
    val2 = z3.Const(ex.fresh_name('cache_val'), z3.ArraySort(Val, Val))
    kk = z3.Const('K_key', Val)
    old_has = z3.Store(h.arr('DHAS')[r], key, z3.BoolVal(True))
    old_val = z3.Store(h.arr('DVAL')[r], key, val)
    ex.assume(z3.Implies(z3.Select(has2, kk), z3.And(z3.Select(old_has, kk), z3.Select(val2, kk) == z3.Select(old_val, kk))))
    ex.assume(z3.Implies(z3.Select(has2, key), z3.Select(val2, key) == val))
    h.set('DHAS', z3.Store(h.arr('DHAS'), r, has2))
    h.set('DVAL', z3.Store(h.arr('DVAL'), r, val2))
    ex.may_raise(['Exception'], 'cache.__setitem__')
    return L.NoneV


for _n, _f in list(globals().items()):
    if _n.startswith('e_'):
        setattr(Stubs, _n, _f)


def setup_cache(ex, self_):
    sh = ex.engine.shapes
    cache = ex.known(ex.get_field(L.simp(Val.oref(self_)), 'parse_cache'))
    ex.assume(z3.Or(L.is_None(cache), z3.And(L.is_Obj(cache), L.cls_of(Val.oref(cache)) == sh.cid('SqParserCache'))))
    if ex.branch(L.is_Obj(cache), 'has-cache'):
        ex.note_class(L.simp(Val.oref(cache)), 'SqParserCache', exact=True)


# ---------------------------------------------------------------------------------------------
# SqParser.parse
# ---------------------------------------------------------------------------------------------
class Parse(FnContract):
    key = MOD + 'parse'

    def apply(self, ex, args, kwargs):
        self_ = args[0]
        expr = ex.to_val(kwargs.get('expr', args[1] if len(args) > 1 else L.NoneV))
        ex.event('parse_call', self_, expr)
        lr = lexer_ref(ex, self_)
        ex.havoc(['F_lineno', 'F_paren_count', 'F_lexpos', 'F_ast'])
        ex.havoc(['DHAS', 'DVAL']) if False else None
        ex.havoc_alloc()
        if not ex.branch(L.is_Str(expr), 'text-is-str'):
            ex.may_raise(['Exception'], 'parse of a non-string')
            raise PathEnd()
        sid = Val.s(expr)
        if ex.branch(parse_fails(sid), 'parse-fails'):
            cls = ex.fresh_int('exc')
            ex.assume(L.exc_is_sub(cls, 'Exception'))
            raise PyRaise(cls, 'parse')
        tree = parse_tree(sid)
        ex.known(tree)
        ex.assume(z3.Or(L.is_None(tree), z3.And(L.is_Obj(tree), ex.engine.shapes.is_instance(Val.oref(tree), 'Op'))))
        ex.note_class(L.simp(Val.oref(tree)), 'Op')
        return tree

    def check(self, ex, ctx, outcome):
        expr = ctx['expr']
        sid = Val.s(expr)
        sets = [e for e in ex.events if e[0] == 'cache_set']
        plys = [e for e in ex.events if e[0] == 'ply_parse']
        if outcome[0] == 'return':
            ex.prove('C17:parse:returns-the-tree-of-its-text-hit-or-miss', ['C17', 'C11', 'C07'],
                     outcome[1] == parse_tree(sid), {'watch': {'result': outcome[1]}})
        else:
            rs = [e for e in ex.events if e[0] == 'raise']
            if rs and rs[-1][2] == 'yacc.parse':
                ex.prove('C17:parse:a-failed-parse-stores-nothing', ['C17', 'C20', 'C11'], not sets)
            # with or without a cache, whatever its eviction policy: parse fails only when the text does not
            # parse (or the host mapping itself raised while storing)
            origin = rs[-1][2] if rs else None
            ex.prove('C17:parse:fails-only-when-the-text-fails-to-parse', ['C17', 'C11'],
                     origin in ('yacc.parse', 'cache.__setitem__'), {'raised_by': str(origin)})
            ex.prove('C16:parse:only-ordinary-exceptions', ['C16'], L.exc_is_sub(outcome[1], 'Exception'))
        for s in sets:
            ex.prove('C17:parse:cache-key-is-the-text-itself', ['C17', 'C20', 'C11'], s[2] == expr)
            ex.prove('C17:parse:cached-value-is-the-tree-of-its-key', ['C17', 'C20', 'C11'],
                     z3.And(L.is_Str(s[2]), s[3] == parse_tree(Val.s(s[2]))))
        for p in plys:
            ex.prove('C17:parse:parses-exactly-the-text-it-was-given', ['C17', 'C11', 'C07'], p[2] == expr)
            ex.prove('C11:parse:drives-its-own-lexer', ['C11', 'C18'], p[3] == L.ObjV(ctx['lexer']))
        ex.prove('C17:parse:at-most-one-parse-and-one-store', ['C17'], len(plys) <= 1 and len(sets) <= 1)
        if outcome[0] == 'return' and not plys:
            gets = [e for e in ex.events if e[0] == 'cache_get']
            ex.prove('C17:parse:without-parsing-the-result-comes-from-the-cache', ['C17'], len(gets) == 1 and
                     bool(gets) and True)
            for g in gets:
                ex.prove('C17:parse:cache-looked-up-under-the-text-itself', ['C17', 'C20', 'C11'], g[2] == expr)


def parse_task(engine):
    fi = engine.src.funcs[MOD + 'parse']

    def setup(ex):
        sh = ex.engine.shapes
        self_ = setup_self(ex, 'SqParser')
        lr = lexer_ref(ex, self_)
        expr = z3.Const('arg_expr', Val)
        ex.assume(L.is_Str(expr))
        setup_cache(ex, self_)
        yv = ex.known(ex.get_field(L.simp(Val.oref(self_)), 'yacc'))
        sh.assume(ex, yv, sh.field_ty('SqParser', 'yacc'))
        env = Env()
        bind_positional(env, fi, [self_, expr])
        ctx = {'env': env, 'self': self_, 'expr': expr, 'lexer': lr, 'entry': ex.heap.copy()}
        ex.ctx = ctx
        ex.task.watch = {'expr': expr}
        return ctx
    t = Task(fi.key, 'sq_parser', fi, setup, [F.Raises, ParserFrame], Parse(engine))
    t.allowed_field_writes = ('lexpos', 'lineno', 'paren_count', 'ast')
    return t


class ParserFrame(F.Family):
    """C11 H3/H5, C17 K4: which fields of pre-existing objects a facade method may write"""

    def on_event(self, ex, ev):
        if ev[0] == 'field_write':
            _, ref, name, value = ev
            allowed = getattr(ex.task, 'allowed_field_writes', ())
            lx = ex.ctx.get('lexer') if hasattr(ex, 'ctx') else None
            if name in allowed and lx is not None:
                ex.prove('C11:%s:writes-only-its-own-lexer[%s]' % (fn(ex), name), ['C11'], ref == lx)
                if name in RESET_VALUE:
                    # H5: resets are unconditional constants, independent of how the previous call ended
                    ex.prove('C11:%s:reset-value-of-%s-is-the-constant' % (fn(ex), name), ['C11', 'C20', 'C18'],
                             value == RESET_VALUE[name])
            else:
                ex.prove('C11:%s:writes-no-other-field-of-a-pre-existing-object[%s]' % (fn(ex), name),
                         ['C11', 'C17', 'C01'], ex.is_fresh(ref), {'watch': {'object': ref}})


# ---------------------------------------------------------------------------------------------
# SqParser.list_names
# ---------------------------------------------------------------------------------------------
class ListNames(FnContract):
    key = MOD + 'list_names'

    def check(self, ex, ctx, outcome):
        inputs = [e for e in ex.events if e[0] == 'lex_input']
        toks = [e for e in ex.events if e[0] == 'lex_token']
        ys = [e for e in ex.events if e[0] == 'yield']
        ex.prove('C18:list_names:feeds-the-text-once', ['C18', 'C11'], len(inputs) <= 1)
        for i in inputs:
            ex.prove('C18:list_names:feeds-exactly-its-text-to-its-own-lexer', ['C18', 'C11'],
                     z3.And(i[2] == ctx['expr'], i[1] == L.ObjV(ctx['lexer'])))
        for t in toks:
            ex.prove('C18:list_names:reads-tokens-from-its-own-lexer', ['C18', 'C11'], t[1] == L.ObjV(ctx['lexer']))
        seen = getattr(ex, 'tokens_seen', [])
        iters = [e for e in ex.events if e[0] == 'loop_iter']
        if iters:
            # positions by enumeration (equal-looking events are different occurrences)
            pos_iter = [k for k, e in enumerate(ex.events) if e[0] == 'loop_iter'][0]
            ys_pos = [k for k, e in enumerate(ex.events) if e[0] == 'yield' and k > pos_iter]
            tok_pos = [k for k, e in enumerate(ex.events) if e[0] == 'lex_token' and k > pos_iter]
            ys = [ex.events[k] for k in ys_pos]
            step_toks = [ex.events[k] for k in tok_pos]
            ex.prove('C18:list_names:one-token-read-per-step', ['C18'], len(step_toks) == 1)
            name = ex.str_lit('NAME')
            # the token this step deals with: the one read in the step (`while True: t = token()`), or - when the step
            # ends by reading the next one (`t = token()` before the loop and at the end of the body) - the token the
            # loop variable carried into the step (a token of this lexer by the generated variable invariant)
            cur = None
            reads_first = not getattr(ex, 'ln_primed', False)
            if reads_first and seen:
                cur = seen[-1]
            elif not reads_first:
                for nm, old, new in getattr(ex, 'loop_havocs', []):
                    if isinstance(new, z3.ExprRef) and new.sort() == Val and ex.check_sat(z3.Not(z3.And(
                            L.is_Obj(new), L.cls_of(Val.oref(new)) == ex.engine.shapes.cid('LexToken')))) == z3.unsat:
                        cur = L.simp(Val.oref(new))
            seen = [cur] if cur is not None else []
            if seen:
                t = seen[-1]
                is_name = ex.get_field(t, 'type') == name
                ex.prove('C18:list_names:yields-exactly-the-NAME-tokens', ['C18'],
                         z3.If(is_name, z3.BoolVal(len(ys) == 1), z3.BoolVal(len(ys) == 0)), {'yields': len(ys)})
                for y in ys:
                    ex.prove('C18:list_names:yields-the-token-text', ['C18'], y[1] == ex.get_field(t, 'value'))
            else:
                ex.prove('C18:list_names:nothing-yielded-without-a-token', ['C18'], len(ys) == 0, soft=True)


class ListNamesWrapper(FnContract):
    """list_names that is not itself the scanning generator: it must hand out a generator created in this
    call by a scanning generator method, for exactly its own text"""

    def __init__(self, engine, scanners):
        self.engine = engine
        self.scanners = scanners

    def check(self, ex, ctx, outcome):
        if outcome[0] != 'return':
            return
        gens = [e for e in ex.events if e[0] == 'generator_created' and e[1] in self.scanners]
        mine = [g for g in gens if ex.same(g[4], outcome[1])]
        ex.prove('C18:list_names:yields-from-a-scan-started-by-this-call', ['C18', 'C11'], len(mine) == 1,
                 {'generators_created': len(gens)})
        for g in mine:
            args = g[2]
            ex.prove('C18:list_names:scans-exactly-its-text-with-its-own-parser', ['C18', 'C11'],
                     z3.And(args[0] == ctx['self'], ex.to_val(args[1]) == ctx['expr']) if len(args) == 2 else False)


def list_names_task(engine, key=None, wrapper_for=None):
    fi = engine.src.funcs[key or (MOD + 'list_names')]

    def setup(ex):
        self_ = setup_self(ex, 'SqParser')
        lr = lexer_ref(ex, self_)
        expr = z3.Const('arg_expr', Val)
        ex.assume(L.is_Str(expr))
        setup_cache(ex, self_)
        env = Env()
        bind_positional(env, fi, [self_, expr])
        ctx = {'env': env, 'self': self_, 'expr': expr, 'lexer': lr, 'entry': ex.heap.copy()}
        ex.ctx = ctx
        return ctx
    if wrapper_for is not None:
        t = Task(fi.key, 'sq_parser', fi, setup, [F.Raises, ParserFrame], ListNamesWrapper(engine, wrapper_for))
    else:
        t = Task(fi.key, 'sq_parser', fi, setup, [F.Raises, ParserFrame], ListNames(engine))
    t.allowed_field_writes = ('lexpos', 'lineno', 'paren_count')
    return t


def list_names_loop(ex, env, i):
    """H1 for the token loop: when the first token is read the carried lexer fields hold their reset values"""
    lr = ex.ctx['lexer']
    ex.lex_check_resets = False
    inputs = [e for e in ex.events if e[0] == 'lex_input']
    out = []
    if not hasattr(ex, 'ln_primed'):
        # first evaluation of the invariant on a path = loop entry: was a token read before the loop?
        ex.ln_primed = any(e[0] == 'lex_token' for e in ex.events)
    primed = ex.ln_primed
    for f in ('lineno', 'paren_count'):
        if primed:
            # the first token was read before the loop (`t = token(); while t is not None: ...; t = token()`): the
            # resets were checked at that read
            continue
        out.append(('resets[%s]-before-the-lexer-reads-it' % f, RESET_PROPS[f] + ['C18'],
                    z3.Implies(i == 0, ex.get_field(lr, f) == RESET_VALUE[f])))
    out.append(('text-fed-before-the-first-token-is-read', ['C18', 'C11'], len(inputs) == 1))
    return out


# ---------------------------------------------------------------------------------------------
# SqParser.eval
# ---------------------------------------------------------------------------------------------
class BudgetTop(F.Budget):
    """the top-level eval: the state is created here, so there is no entry budget to compare with"""

    def on_entry(self, ex, ctx):
        self.ctx = ctx
        self.role = 'top'
        self.super_calls = 0

    def on_exit(self, ex, ctx, outcome):
        pass

    def loop_invariants(self, ex, env=None, names=()):
        if not getattr(ex, 'state_created', False):
            return []
        return [('below-limit', ['C01'], ops(ex.heap) < max_ops(ex.heap))]

    def on_event(self, ex, ev):
        pass


class ValuesTop(F.Values):
    def on_exit(self, ex, ctx, outcome):
        pass


class ScopesTop(F.Scopes):
    def on_entry(self, ex, ctx):
        self.entry = ctx['entry']
        self.exempt = True


class Eval(FnContract):
    key = MOD + 'eval'

    def check(self, ex, ctx, outcome):
        n = 'SqParser.eval'
        cons = [e for e in ex.events if e[0] == 'construct']
        states = [e for e in cons if e[1] == 'VMState']
        sds = [e for e in cons if e[1] == 'ScopedDict']
        parses = [e for e in ex.events if e[0] == 'parse_call']
        calls = [e for e in ex.events if e[0] == 'call' and e[1] == 'op_eval']
        ex.prove('C01:SqParser.eval:one-VM-state-carries-the-whole-call', ['C01', 'C11'], len(states) <= 1)
        if calls:
            ex.prove('C01:SqParser.eval:evaluates-under-a-VM-state-built-by-this-call', ['C01', 'C11'], len(states) == 1,
                     {'states_built': len(states)})
        ex.prove('C10:%s:exactly-one-scoped-names-per-call' % n, ['C10', 'C11'], len(sds) == 1 or outcome[0] == 'raise' and len(sds) <= 1)
        for p in parses:
            ex.prove('C07:%s:parses-its-text-without-trailing-whitespace' % n, ['C07', 'C17', 'C20', 'C15', 'C16', 'C06'],
                     z3.And(L.is_Str(p[2]), Val.s(p[2]) == L.UF('str_rstrip', I, I)(Val.s(ctx['expr']))))
            ex.prove('C11:%s:parses-with-its-own-parser' % n, ['C11'], p[1] == ctx['self'])
        ex.prove('C07:%s:parses-once' % n, ['C07', 'C17', 'C01', 'C20'], len(parses) <= 1)
        # every tree this call evaluates (ast_names, then the program) runs on exactly [builtins copy, host names]:
        # the callee keeps the stack as it found it (Scopes), so the stack after the call is the one it ran on
        pushes = [e for e in ex.events if e[0] == 'push_scope']
        if sds:
            sref = Val.lref(ex.get_field(sds[0][2], 'scopes'))
            for c in calls:
                hc = c[6]
                ex.prove('C10:%s:every-tree-is-evaluated-on-builtins-plus-host-names' % n, ['C%02d' % k for k in range(1, 21)],
                         z3.And(hc.llen(sref) == 2, hc.lelt(sref, 1) == pushes[0][2]) if pushes else False)
        if outcome[0] == 'return':
            tree = parse_tree(L.UF('str_rstrip', I, I)(Val.s(ctx['expr'])))
            if calls:
                ex.prove('C07:%s:yields-what-the-tree-evaluates-to' % n, ['C%02d' % k for k in range(1, 21)],
                         z3.And(calls[-1][2] == tree, outcome[1] == calls[-1][4]))
            else:
                ex.prove('C07:%s:empty-program-yields-None' % n, ['C07'],
                         z3.And(L.is_None(tree), outcome[1] == L.NoneV))
        for s in states:
            ref, vals = s[2], s[3]
            ex.prove('C01:%s:budget-forwarded-to-the-VM-state' % n, ['C01'],
                     vals['max_ops_evaluated'] == ctx['max_ops'], {'watch': {'given': ctx['max_ops'], 'used': vals['max_ops_evaluated']}})
            ex.prove('C01:%s:evaluation-starts-with-zero-ops-charged' % n, ['C01'], vals['ops_evaluated'] == L.IntV(0))
            ex.prove('C10:%s:VM-state-uses-this-calls-scoped-names' % n, ['C10', 'C11'],
                     bool(sds) and vals['names'] == L.ObjV(sds[0][2]) if sds else False)
            # C01 O7: callables that a later call finds in `names` must charge THIS evaluation
            kk = z3.Const('K_key', Val)
            names = ctx['names']
            nd = Val.dref(names)
            h0 = ctx['entry']
            v = h0.dval(nd, kk)
            ex.prove('C01:%s:closures-found-in-names-charge-this-evaluation' % n, ['C01'],
                     z3.Implies(z3.And(L.is_Dict(names), h0.dhas(nd, kk), L.is_Fun(v), L.is_closure(Val.fn(v))),
                                L.closure_state(Val.fn(v)) == ref),
                     {'watch': {'names[K]': v}})
        stores = [e for e in ex.events if e[0] == 'store_name']
        for s in stores:
            ex.prove('C10:%s:ast-names-bound-in-this-calls-scopes' % n, ['C10'], bool(sds) and s[1] == L.ObjV(sds[0][2]) if sds else False)


def eval_task(engine):
    fi = engine.src.funcs[MOD + 'eval']

    def setup(ex):
        sh = ex.engine.shapes
        self_ = setup_self(ex, 'SqParser')
        lexer_ref(ex, self_)
        expr = z3.Const('arg_expr', Val)
        ex.assume(L.is_Str(expr))
        names = z3.Const('arg_names', Val)
        ex.known(names)
        ex.assume(z3.Or(L.is_None(names), z3.And(L.is_Dict(names), Val.dref(names) != F.G_FUNCTIONS())))
        ast_names = z3.Const('arg_ast_names', Val)
        ex.known(ast_names)
        ex.assume(z3.Or(L.is_None(ast_names), L.is_Dict(ast_names)))
        max_ops_ = z3.Const('arg_max_ops_evaluated', Val)
        # a budget of at least one operation (with 0 or less the first Op.eval fails: covered by the Op.eval task, which is
        # checked for every counter and budget value)
        ex.assume(z3.And(L.is_Int(max_ops_), Val.i(max_ops_) >= 1))
        ex.assume(CAP >= F.MAX_ARRAY)
        env = Env()
        env.vars.update({'self': self_, 'expr': expr, 'names': names, 'ast_names': ast_names,
                         'max_ops_evaluated': max_ops_})
        ctx = {'env': env, 'self': self_, 'expr': expr, 'names': names, 'ast_names': ast_names,
               'max_ops': max_ops_, 'entry': ex.heap.copy()}
        ex.ctx = ctx
        ex.task.watch = {'max_ops_evaluated': max_ops_, 'names': names}
        return ctx
    t = Task(fi.key, 'sq_parser', fi, setup, [BudgetTop, ScopesTop, ValuesTop, F.Raises, EvalGhost, ParserFrame],
             Eval(engine))
    return t


class EvalGhost(F.Family):
    """ghost.cur_state := the VMState this call creates; values of ast_names are well-formed trees"""

    def on_event(self, ex, ev):
        if ev[0] == 'construct' and ev[1] == 'VMState':
            if getattr(ex, 'state_created', False):
                # a second VM state: whatever is evaluated under it escapes the caller's budget
                ex.prove('C01:SqParser.eval:one-VM-state-carries-the-whole-call', ['C01', 'C11'], False)
                return
            ex.assume(CUR == ev[2])
            ex.state_created = True
            ex.note_class(CUR, 'VMState', exact=True)
            self.scope_layout(ex, ex.ctx)
        if ev[0] == 'construct' and ev[1] == 'ScopedDict' and ev[3] is None:
            pass

    def assume_value(self, ex, v):
        pass

    def scope_layout(self, ex, ctx):
        """C10 Sc3 / Sc5, when the evaluation starts: scopes == [fresh copy of the builtin table, host names]"""
        n = 'SqParser.eval'
        sds = [e for e in ex.events if e[0] == 'construct' and e[1] == 'ScopedDict']
        # every property whose builtin specs speak about the published table relies on the layout
        TBL = ['C%02d' % k for k in range(1, 21)]      # where names resolve is behind the statement of every property
        pushes = [e for e in ex.events if e[0] == 'push_scope']
        copies = [e for e in ex.events if e[0] == 'dict_copy']
        ex.prove('C10:%s:one-scoped-names-built-before-the-state' % n, TBL, len(sds) == 1)
        if not sds:
            return
        sref = Val.lref(ex.get_field(sds[0][2], 'scopes'))
        h = ex.heap
        g = F.G_FUNCTIONS()
        ex.prove('C10:%s:one-scope-pushed-over-the-builtins' % n, TBL, len(pushes) == 1)
        ex.prove('C10:%s:builtins-copied-never-shared' % n, TBL, len(copies) == 1)
        if copies and pushes:
            cp = copies[0]
            ex.prove('C10:%s:bottom-scope-is-a-fresh-copy-of-the-builtin-table' % n,
                     TBL,
                     z3.And(cp[2] == g, ex.is_fresh(cp[1]), h.llen(sref) == 2, h.lelt(sref, 0) == L.DictV(cp[1]),
                            h.arr('DHAS')[cp[1]] == h.arr('DHAS')[g], h.arr('DVAL')[cp[1]] == h.arr('DVAL')[g]))
            names = ctx['names']
            ex.prove('C10:%s:host-names-sit-above-the-builtins' % n, ['C10', 'C07', 'C11'],
                     z3.And(pushes[0][1] == L.ObjV(sds[0][2]), h.lelt(sref, 1) == pushes[0][2],
                            z3.If(L.is_None(names), z3.And(L.is_Dict(pushes[0][2]), ex.is_fresh(Val.dref(pushes[0][2]))),
                                  pushes[0][2] == names)))


def eval_loop(ex, env, i):
    # the ast_names loop keeps the scope stack at [builtins copy, host names]
    sds = [e for e in ex.events if e[0] == 'construct' and e[1] == 'ScopedDict']
    pushes = [e for e in ex.events if e[0] == 'push_scope']
    if not sds or not pushes:
        return []
    sref = Val.lref(ex.get_field(sds[0][2], 'scopes'))
    return [('scope-stack-is-builtins-plus-host-names', ['C10', 'C07', 'C11'],
             z3.And(ex.heap.llen(sref) == 2, ex.heap.lelt(sref, 1) == pushes[0][2]))]


def eval_loop_axioms(ex, env, i):
    # host-supplied ast_names values are well-formed syntax trees (A-HOST)
    out = []
    if env.has('v'):
        v = env.lookup('v')
        if isinstance(v, z3.ExprRef):
            out.append(z3.And(L.is_Obj(v), ex.engine.shapes.is_instance(Val.oref(v), 'Op')))
            ex.note_class(L.simp(Val.oref(v)), 'Op')
    return out


def tasks(engine):
    engine.loops.invariants[(MOD + 'eval', 0)] = eval_loop
    engine.loops.post_bind_axioms[(MOD + 'eval', 0)] = eval_loop_axioms
    out = []
    add_task(engine, out, lambda: parse_task(engine))
    add_task(engine, out, lambda: eval_task(engine))
    ln = engine.src.funcs.get(MOD + 'list_names')
    if ln is None:
        engine.missing_functions.append(MOD + 'list_names')
        return out
    if ln.is_generator():
        engine.loops.invariants[(ln.key, 0)] = list_names_loop
        out.append(list_names_task(engine))
    else:
        # list_names delegates: every generator method of SqParser is held to the scan contract
        scanners = [k for k, f in engine.src.funcs.items() if k.startswith(MOD) and f.is_generator()]
        for k in scanners:
            engine.loops.invariants[(k, 0)] = list_names_loop
            out.append(list_names_task(engine, key=k))
        out.append(list_names_task(engine, wrapper_for=scanners))
    return out


def contracts(engine):
    return {Parse.key: Parse(engine)}
