"""Contracts of smartquery/rules.py: one task per production alternative of every p_* action (G3).

For each alternative the verifier fixes len(p) and p.slice[i].type as the alternative dictates, executes the
real p_* body over symbolic p[1..n], and proves p[0] == spec_tree(alternative): structural equality of the
dataclass tree, list arguments element-wise at a skolem index, no list shared between p[0] and any p[i].
spec_tree is the table 'production -> node' of the published language (C06, C07, C15 Y1), plus:
name provenance (C18 L3), tree shape invariants (C17 K5), reserved words / p_error (C16 X2 X3, C20 Z3)."""
import ast
import z3

from sqv import logic as L
from sqv.logic import Val, I, B
from sqv.symex import Env, St, PyRaise, PathEnd, Unsupported
from sqv.engine import Task
from sqv.pyfront import grammar_alternatives
from sqv.stubs import Stubs
from sqv import families as F
from sqv import shapes as SH
from .common import *
from .lexer import literal_language, resolve_dict

MOD = 'smartquery.rules:'
PE = 'ParserError'
K = z3.Int('K_view')
IMPLICIT_NAMES = ('list', 'dict', '__getitem__', '__setitem__', '__delitem__', '__setitem_with_op__')

TERMINAL_VALUE_KIND = {'NAME': 'str', 'NUMBER': 'dec', 'STRING': 'str'}
NONTERMINAL_KIND = {'expression': 'op', 'statement': 'op_or_none', 'line': 'op_or_none', 'code': 'op_or_none',
                    'arglist': 'oplist', 'arglist_def': 'oplist', 'dict_item': 'pairlist', 'slice': 'slicelist'}


# ---------------------------------------------------------------------------------------------
# YaccProduction model
# ---------------------------------------------------------------------------------------------
def e_YaccProduction___getitem__(stubs, ex, recv, args, kwargs):
    key = L.simp(ex.to_val(args[0]))
    slots = ex.p_slots
    if z3.is_app(key) and key.decl().name() == 'IntV' and z3.is_int_value(key.arg(0)):
        k = key.arg(0).as_long()
        if 0 <= k < len(slots):
            ex.event('p_read', k)
            return slots[k]
        ex.raise_('IndexError', 'p[%d] out of range' % k)
    if z3.is_app(key) and key.decl().name() == 'SliceV':
        r = key.arg(0)
        parts = []
        for f in ('sl_start', 'sl_stop', 'sl_step'):
            v = L.simp(ex.get_field(r, f))
            if z3.is_app(v) and v.decl().name() == 'NoneV':
                parts.append(None)
            elif z3.is_app(v) and v.decl().name() == 'IntV' and z3.is_int_value(v.arg(0)):
                parts.append(v.arg(0).as_long())
            else:
                raise Unsupported('symbolic slice of p')
        vals = slots[slice(*parts)]
        ref = ex.new_list_from(vals)
        ex.event('p_slice', tuple(parts), ref)
        return L.ListV(ref)
    raise Unsupported('symbolic index into p')


def e_YaccProduction___setitem__(stubs, ex, recv, args, kwargs):
    key = L.simp(ex.to_val(args[0]))
    if z3.is_app(key) and key.decl().name() == 'IntV' and z3.is_int_value(key.arg(0)):
        k = key.arg(0).as_long()
        ex.event('p_write', k, ex.to_val(args[1]))
        ex.p_slots[k] = ex.to_val(args[1])
        return L.NoneV
    raise Unsupported('symbolic index store into p')


Stubs.e_YaccProduction___getitem__ = e_YaccProduction___getitem__
Stubs.e_YaccProduction___setitem__ = e_YaccProduction___setitem__


def token_texts(engine):
    """terminal -> the finite set of texts its rule can match (None if not a finite literal set)"""
    out = {}
    g = engine.src.globals['lexer']
    for name, (kind, node) in g.items():
        if name.startswith('t_') and kind == 'const' and isinstance(node, ast.Constant) and isinstance(node.value, str):
            out[name[2:]] = literal_language(node.value)
    for key, fi in engine.src.funcs.items():
        if key.startswith('smartquery.lexer:t_') and fi.docstring():
            out[fi.name[2:]] = literal_language(fi.docstring())
    for word, tok in resolve_dict(engine, 'lexer', 'reserved').items():
        out[tok] = [word]
    return out


def alt_setup(engine, fi, lhs, rhs, variant=None):
    texts = token_texts(engine)

    def setup(ex):
        sh = engine.shapes
        ex.task.builds_trees = True
        p = z3.Int('p_ref')
        lx = z3.Int('lexer_ref')
        ex.assume(z3.And(p >= 0, lx >= 0, p != lx, p < ex.entry_next, lx < ex.entry_next))
        ex.assume(L.cls_of(p) == sh.cid('YaccProduction'))
        ex.assume(L.cls_of(lx) == sh.cid('Lexer'))
        ex.note_class(p, 'YaccProduction', exact=True)
        ex.note_class(lx, 'Lexer', exact=True)
        h = ex.heap
        ex.assume(h.fld('lexer', p) == L.ObjV(lx))
        slots = [L.NoneV]
        kinds = [None]
        # p.slice: the grammar symbols of this alternative
        sl = z3.Int('slice_ref')
        ex.assume(z3.And(sl >= 0, sl < ex.entry_next, sl != p, sl != lx))
        ex.assume(h.fld('slice', p) == L.ListV(sl))
        ex.assume(h.llen(sl) == len(rhs) + 1)
        syms = [lhs] + list(rhs)
        for k, sym in enumerate(syms):
            s = z3.Int('sym%d_ref' % k)
            ex.assume(z3.And(s >= 0, s < ex.entry_next))
            ex.assume(h.lelt(sl, k) == L.ObjV(s))
            ex.assume(L.cls_of(s) == sh.cid('YaccSymbol'))
            ex.assume(h.fld('type', s) == ex.str_lit(sym))
        for k, sym in enumerate(rhs, 1):
            v = z3.Const('p%d' % k, Val)
            ex.known(v)
            if sym in NONTERMINAL_KIND:
                kind = NONTERMINAL_KIND[sym]
                if kind == 'op':
                    ex.assume(z3.And(L.is_Obj(v), sh.is_instance(Val.oref(v), 'Op')))
                    ex.assume(L.cls_of(Val.oref(v)) != sh.cid('SliceOp'))
                    ex.note_class(L.simp(Val.oref(v)), 'Op')
                elif kind == 'op_or_none':
                    ex.assume(z3.Or(L.is_None(v), z3.And(L.is_Obj(v), sh.is_instance(Val.oref(v), 'Op'))))
                    ex.note_class(L.simp(Val.oref(v)), 'Op')
                elif kind in ('oplist', 'pairlist'):
                    ex.assume(z3.And(L.is_List(v), L.node_owned(Val.lref(v)), h.llen(Val.lref(v)) >= 1))
                    r = L.simp(Val.lref(v))
                    ex.typed_refs[r.get_id()] = (r, SH.OP if kind == 'oplist' else SH.Ty('tuple2op'))
                    ex.protect(r)
                elif kind == 'slicelist':
                    # the value p_slice builds: the values of its own symbols (variant = that alternative)
                    elems = []
                    for j, ssym in enumerate(variant):
                        if ssym == 'COLON':
                            elems.append(ex.str_lit(':'))
                        else:
                            e = z3.Const('slice_e%d' % j, Val)
                            ex.known(e)
                            ex.assume(z3.And(L.is_Obj(e), sh.is_instance(Val.oref(e), 'Op')))
                            ex.note_class(L.simp(Val.oref(e)), 'Op')
                            elems.append(e)
                    r = z3.Int('slicelist_ref')
                    ex.assume(z3.And(r >= 0, r < ex.entry_next))
                    ex.assume(v == L.ListV(r))
                    ex.assume(h.llen(r) == len(elems))
                    for j, e in enumerate(elems):
                        ex.assume(h.lelt(r, j) == e)
                    ex.protect(r)
                    ex.slice_elems = elems
            else:
                lang = texts.get(sym)
                vk = TERMINAL_VALUE_KIND.get(sym)
                if vk == 'dec':
                    ex.assume(L.is_Dec(v))
                elif vk == 'str' or lang is None:
                    ex.assume(L.is_Str(v))
                else:
                    ex.assume(z3.Or([v == ex.str_lit(t) for t in lang]))
            slots.append(v)
            kinds.append(sym)
        if fi.name == 'p_code' and len(rhs) == 3:
            # protocol invariant of the result slot: `code` always starts with `code : line`, which stores a CodeOp
            a = h.fld('ast', lx)
            ex.assume(z3.And(L.is_Obj(a), L.cls_of(Val.oref(a)) == sh.cid('CodeOp'), Val.oref(a) < ex.entry_next))
            ex.note_class(L.simp(Val.oref(a)), 'CodeOp', exact=True)
            ex.assume(L.is_List(h.fld('lines', Val.oref(a))))
            ex.assume(h.llen(Val.lref(h.fld('lines', Val.oref(a)))) >= 0)
        ex.p_slots = slots
        ex.p_syms = syms
        env = Env()
        env.vars[fi.params()[0][0]] = L.ObjV(p)
        ctx = {'env': env, 'p': p, 'lexer': lx, 'lhs': lhs, 'rhs': list(rhs), 'slots0': list(slots),
               'entry': ex.heap.copy(), 'variant': variant}
        ex.ctx = ctx
        return ctx
    return setup


# ---------------------------------------------------------------------------------------------
# tree descriptors and comparison
# ---------------------------------------------------------------------------------------------
def N(cls, **fields):
    return ('obj', cls, fields)


def LIST(*vals):
    return ('list', list(vals))


def CAT(prefix, src, suffix):
    return ('cat', list(prefix), src, list(suffix))


def LIT(x):
    return ('lit', x)


def TUP(*vals):
    return ('tuple', list(vals))


def matches(ex, actual, exp, fresh_lists):
    """z3 formula: the value `actual` is the tree `exp`"""
    h = ex.heap
    sh = ex.engine.shapes
    if isinstance(exp, z3.ExprRef):
        return actual == exp
    kind = exp[0]
    if kind == 'lit':
        x = exp[1]
        if x is None:
            return actual == L.NoneV
        if x is True:
            return actual == L.TrueV
        if x is False:
            return actual == L.FalseV
        if isinstance(x, str):
            return actual == ex.str_lit(x)
        raise ValueError(x)
    if kind == 'obj':
        _, cls, fields = exp
        r = Val.oref(actual)
        parts = [L.is_Obj(actual), ex.is_fresh(r), L.cls_of(r) == sh.cid(cls)]
        for f, e in fields.items():
            parts.append(matches(ex, h.fld(f, r), e, fresh_lists))
        return z3.And(parts)
    if kind in ('list', 'tuple'):
        vals = exp[1]
        r = Val.lref(actual) if kind == 'list' else Val.tref(actual)
        parts = [L.is_List(actual) if kind == 'list' else L.is_Tuple(actual), ex.is_fresh(r), h.llen(r) == len(vals)]
        for k, e in enumerate(vals):
            parts.append(matches(ex, h.lelt(r, k), e, fresh_lists))
        return z3.And(parts)
    if kind == 'cat':
        _, prefix, src, suffix = exp
        r = Val.lref(actual)
        sr = Val.lref(src)
        n = h.llen(sr)
        np_ = len(prefix)
        parts = [L.is_List(actual), ex.is_fresh(r), r != sr, h.llen(r) == np_ + n + len(suffix)]
        for k, e in enumerate(prefix):
            parts.append(matches(ex, h.lelt(r, k), e, fresh_lists))
        parts.append(z3.Implies(z3.And(K >= np_, K < np_ + n), h.lelt(r, K) == h.lelt(sr, K - np_)))
        for k, e in enumerate(suffix):
            parts.append(matches(ex, h.lelt(r, np_ + n + k), e, fresh_lists))
        return z3.And(parts)
    raise ValueError(kind)


NONE_OP = N('ValueOp', v=LIT(None))


def slice_spec(variant, elems):
    """SliceOp fields for a slice alternative: positions start:stop:step, a missing bound is ValueOp(None)"""
    bounds = []
    cur = None
    # split the symbols at COLONs
    pos = [None]
    k = 0
    for sym, e in zip(variant, elems):
        if sym == 'COLON':
            pos.append(None)
        else:
            pos[-1] = e
    fields = {}
    names = ['start', 'stop', 'step']
    for name, e in zip(names, pos + [None] * 3):
        fields[name] = e if e is not None else NONE_OP
    return N('SliceOp', **fields)


BINARY_TOKENS = ('PLUS', 'MINUS', 'TIMES', 'POWER', 'DIVIDE', 'EQ', 'NE', 'GT', 'LT', 'GTE', 'LTE', 'IN', 'AND', 'OR')
CLOSERS = ('RPAREN', 'RBRACKET', 'RBRACE')


def spec_tree(ex, fname, lhs, rhs, p, ctx):
    """the tree the published language assigns to a PRODUCTION (keyed by the production, not by the name of
    the function that happens to implement it); None: no tree is published for it"""
    rhs = tuple(rhs)
    n = len(rhs)
    core = tuple(x for x in rhs)
    # a trailing comma before the closing bracket changes nothing
    if n >= 2 and rhs[-2] == 'COMMA' and rhs[-1] in CLOSERS:
        core = rhs[:-2] + rhs[-1:]
    if lhs == 'line' and rhs == ('statement',):
        return p[1]
    if lhs == 'statement':
        if rhs == ('expression',):
            return p[1]
        if rhs == ():
            return LIT(None)
        if rhs == ('COMMENT',):
            return N('NoOp')
        if rhs == ('NAME', 'ASSIGN', 'expression'):
            return N('AssignOp', name=p[1], value=p[3])
        if rhs == ('NAME', 'SHORT_OP', 'expression'):
            return N('ShortOp', name=p[1], op=p[2], value=p[3])
        if rhs == ('DEL', 'expression', 'LBRACKET', 'expression', 'RBRACKET'):
            return N('CallOp', name=LIT('__delitem__'), args=LIST(p[2], p[4]))
        if rhs == ('expression', 'LBRACKET', 'expression', 'RBRACKET', 'ASSIGN', 'expression'):
            return N('CallOp', name=LIT('__setitem__'), args=LIST(p[1], p[3], p[6]))
        if rhs == ('expression', 'LBRACKET', 'expression', 'RBRACKET', 'SHORT_OP', 'expression'):
            return N('CallOp', name=LIT('__setitem_with_op__'), args=LIST(p[1], p[3], N('ValueOp', v=p[5]), p[6]))
        return None
    if lhs == 'arglist':
        if rhs == ('arglist', 'COMMA', 'expression'):
            return CAT([], p[1], [p[3]])
        if rhs == ('expression',):
            return LIST(p[1])
        return None
    if lhs == 'arglist_def':
        if rhs == ('arglist', 'COMMA', 'NAME'):
            return CAT([], p[1], [N('NameOp', name=p[3])])
        if rhs == ('NAME',):
            return LIST(N('NameOp', name=p[1]))
        return None
    if lhs == 'dict_item':
        if rhs == ('dict_item', 'COMMA', 'expression', 'COLON', 'expression'):
            return CAT([], p[1], [TUP(p[3], p[5])])
        if rhs == ('expression', 'COLON', 'expression'):
            return LIST(TUP(p[1], p[3]))
        return None
    if lhs == 'slice':
        return LIST(*p[1:])
    if lhs != 'expression':
        return None
    if rhs in (('NUMBER',), ('STRING',)):
        return N('ValueOp', v=p[1])
    if rhs == ('TRUE',):
        return N('ValueOp', v=LIT(True))
    if rhs == ('FALSE',):
        return N('ValueOp', v=LIT(False))
    if rhs == ('NONE',):
        return N('ValueOp', v=LIT(None))
    if rhs == ('NAME',):
        return N('NameOp', name=p[1])
    if rhs == ('MINUS', 'expression'):
        return N('UnaryOp', op=LIT('-'), op1=p[2])
    if rhs == ('NOT', 'expression'):
        return N('UnaryOp', op=LIT('not'), op1=p[2])
    if rhs == ('LPAREN', 'expression', 'RPAREN'):
        return p[2]
    if rhs == ('expression', 'NOT', 'IN', 'expression'):
        return N('BinOp', op=LIT('not in'), op1=p[1], op2=p[4])
    if n == 3 and rhs[0] == 'expression' and rhs[2] == 'expression' and rhs[1] in BINARY_TOKENS:
        return N('BinOp', op=p[2], op1=p[1], op2=p[3])
    if rhs == ('expression', 'IF', 'expression', 'ELSE', 'expression'):
        return N('IfExprOp', cond=p[3], op1=p[1], op2=p[5])
    if rhs == ('NAME', 'LAMBDA', 'expression'):
        return N('LambdaOp', args=LIST(N('NameOp', name=p[1])), expr=p[3])
    if rhs == ('LPAREN', 'arglist_def', 'RPAREN', 'LAMBDA', 'expression'):
        return N('LambdaOp', args=p[2], expr=p[5])
    # calls: f(args), r.f(args), r | f(args), r | f  all denote CallOp(f, [r,] args)
    if core == ('NAME', 'LPAREN', 'arglist', 'RPAREN'):
        return N('CallOp', name=p[1], args=p[3])
    if core == ('NAME', 'LPAREN', 'RPAREN'):
        return N('CallOp', name=p[1], args=LIST())
    if len(core) == 6 and core[0] == 'expression' and core[1] in ('DOT', 'PIPE') and core[2:] == ('NAME', 'LPAREN', 'arglist', 'RPAREN'):
        return N('CallOp', name=p[3], args=CAT([p[1]], p[5], []))
    if len(core) == 5 and core[0] == 'expression' and core[1] in ('DOT', 'PIPE') and core[2:] == ('NAME', 'LPAREN', 'RPAREN'):
        return N('CallOp', name=p[3], args=LIST(p[1]))
    if rhs == ('expression', 'PIPE', 'NAME'):
        return N('CallOp', name=p[3], args=LIST(p[1]))
    # literals
    if core == ('LBRACKET', 'RBRACKET'):
        return N('CallOp', name=LIT('list'), args=LIST())
    if core == ('LBRACKET', 'arglist', 'RBRACKET'):
        return N('CallOp', name=LIT('list'), args=p[2])
    if core == ('LBRACE', 'RBRACE'):
        return N('CallOp', name=LIT('dict'), args=LIST())
    if core == ('LBRACE', 'dict_item', 'RBRACE'):
        return N('DictOp', d=p[2])
    # indexing
    if rhs == ('expression', 'LBRACKET', 'slice', 'RBRACKET'):
        return N('CallOp', name=LIT('__getitem__'), args=LIST(p[1], slice_spec(ctx['variant'], ex.slice_elems)))
    if rhs == ('expression', 'LBRACKET', 'expression', 'RBRACKET'):
        return N('CallOp', name=LIT('__getitem__'), args=LIST(p[1], p[3]))
    return None


RESERVED_UNUSED = ('FOR', 'WHILE', 'ELIF', 'BREAK', 'CONTINUE', 'DEF', 'RAISE')


class AltSpec(FnContract):
    def __init__(self, engine, fname, lhs, rhs):
        self.engine = engine
        self.fname = fname
        self.lhs = lhs
        self.rhs = rhs

    def check(self, ex, ctx, outcome):
        fname, lhs, rhs = self.fname, self.lhs, self.rhs
        alt = '%s -> %s' % (lhs, ' '.join(rhs) or 'ε')
        tag = '%s[%s]' % (fname, alt) + ('{%s}' % ' '.join(ctx['variant']) if ctx.get('variant') else '')
        p0 = ctx['slots0']
        sh = self.engine.shapes
        # C18 L3 / C17 K5: every node built here is well-shaped and names come from NAME symbols
        name_slots = [p0[k] for k, s in enumerate([None] + list(rhs)) if s == 'NAME']
        for e in ex.events:
            if e[0] == 'construct' and e[1] in self.engine.src.classes and e[3]:
                cls, vals = e[1], e[3]
                for f, v in vals.items():
                    ty = sh.field_ty(cls, f)
                    if ty is not None:
                        ex.prove('C17:%s:%s.%s-is-well-shaped' % (tag, cls, f), ['C17', 'C06', 'C07', 'C14'],
                                 sh.formula(ex, v, ty), {'watch': {'value': v}})
                    if f == 'args' and cls == 'CallOp':
                        nm = L.simp(vals.get('name'))
                        for helper in ('__setitem__', '__setitem_with_op__', '__delitem__'):
                            if nm.eq(L.simp(ex.str_lit(helper))):
                                h = ex.heap
                                key = h.lelt(Val.lref(v), 1)
                                ex.prove('C03:%s:%s-is-never-built-with-a-slice-as-the-key' % (tag, helper), ['C03', 'C14'],
                                         z3.Not(z3.And(L.is_Obj(key), L.cls_of(Val.oref(key)) == sh.cid('SliceOp'))))
                    if f == 'name':
                        ex.prove('C18:%s:%s.name-is-a-NAME-of-the-source-or-an-implicit-helper' % (tag, cls), ['C18'],
                                 z3.Or([v == s for s in name_slots] + [v == ex.str_lit(x) for x in IMPLICIT_NAMES]),
                                 {'watch': {'name': v}})
        if lhs == 'expression' and len(rhs) == 1 and rhs[0] in RESERVED_UNUSED:
            ex.prove('C16:%s:reserved-word-is-ParserError' % tag, ['C16'],
                     L.exc_is_sub(outcome[1], PE) if outcome[0] == 'raise' else False)
            return
        if outcome[0] == 'raise':
            ex.prove('C06:%s:action-does-not-fail' % tag, ['C06', 'C16'], False)
            return
        result = ex.p_slots[0]
        if lhs == 'code':
            self.code_spec(ex, ctx, tag, result)
            return
        if lhs == 'expression':
            ex.prove('C14:%s:an-expression-is-never-a-bare-slice-node' % tag, ['C14', 'C03', 'C06'],
                     z3.Not(z3.And(L.is_Obj(result), L.cls_of(Val.oref(result)) == sh.cid('SliceOp'))))
        exp = spec_tree(ex, fname, lhs, rhs, p0, ctx)
        if exp is None:
            ex.prove('C06:%s:has-a-tree-spec' % tag, ['C06', 'C07', 'C15', 'C09'], False)
            return
        ex.prove('C06:%s:builds-the-tree-of-the-published-language' % tag, ['C06', 'C07', 'C15', 'C09'],
                 matches(ex, result, exp, None), {'watch': {'p[0]': result}})
        # p.lexer.ast is the parser's result slot: only p_code touches it
        fw = [e for e in ex.events if e[0] == 'field_write']
        ex.prove('C11:%s:writes-no-parser-or-lexer-state' % tag, ['C11', 'C17'], not fw, {'fields': [e[2] for e in fw]})
        # no list of a sub-tree is modified (trees of different sources share nothing, C17 K5)
        ws = [e for e in ex.events if e[0] == 'write' and e[1] == 'list']
        for w in ws:
            ex.prove('C17:%s:sub-tree-lists-not-modified[%s]' % (tag, w[2]), ['C17'], ex.is_fresh(w[3]), soft=True)

    def code_spec(self, ex, ctx, tag, result):
        """p_code protocol (C15 Y1): blank statements are dropped, the others appended in order"""
        h0, h = ctx['entry'], ex.heap
        lx = ctx['lexer']
        p0 = ctx['slots0']
        sh = self.engine.shapes
        ast1 = h.fld('ast', lx)
        if len(self.rhs) == 1:
            line = p0[1]
            r = Val.oref(ast1)
            lines = Val.lref(h.fld('lines', r))
            ex.prove('C15:%s:starts-a-program-with-the-first-statement-unless-blank' % tag, ['C15', 'C06', 'C07'],
                     z3.And(L.is_Obj(ast1), ex.is_fresh(r), L.cls_of(r) == sh.cid('CodeOp'),
                            L.is_List(h.fld('lines', r)), ex.is_fresh(lines),
                            z3.If(L.is_None(line), h.llen(lines) == 0,
                                  z3.And(h.llen(lines) == 1, h.lelt(lines, 0) == line))))
        else:
            line = p0[3]
            ast0 = h0.fld('ast', lx)
            r = Val.oref(ast0)
            lines = Val.lref(h0.fld('lines', r))
            n0 = h0.llen(lines)
            ex.prove('C15:%s:appends-the-statement-unless-blank-and-keeps-the-rest' % tag, ['C15', 'C06', 'C07'],
                     z3.And(ast1 == ast0, h.fld('lines', r) == h0.fld('lines', r),
                            z3.If(L.is_None(line), z3.And(h.llen(lines) == n0, h.lelts(lines) == h0.lelts(lines)),
                                  z3.And(h.llen(lines) == n0 + 1, h.lelt(lines, n0) == line,
                                         z3.Implies(z3.And(K >= 0, K < n0), h.lelt(lines, K) == h0.lelt(lines, K))))))
        fw = [e for e in ex.events if e[0] == 'field_write' and e[2] != 'ast']
        ex.prove('C11:%s:writes-only-the-result-slot-of-the-lexer' % tag, ['C11', 'C17'], not fw)


class PError(FnContract):
    def check(self, ex, ctx, outcome):
        which = ctx['which']
        ex.prove('C16:p_error[%s]:syntax-error-is-ParserError-never-returns' % which, ['C16', 'C20'],
                 L.exc_is_sub(outcome[1], PE) if outcome[0] == 'raise' else False)
        if which == 'token':
            # the message is built from the token's own text and the line recorded on the token
            reads = [(e[1], e[2]) for e in ex.events if e[0] == 'field_read']
            t = ctx['t']
            fmt = getattr(ex, 'formatted', [])
            ex.prove('C20:p_error[token]:message-shows-the-token-text', ['C20'],
                     any(ex.same(v, ex.get_field(t, 'value')) for v in fmt), {'formatted': [str(v) for v in fmt]})
            ex.prove('C20:p_error[token]:message-shows-the-line-recorded-on-the-token', ['C20'],
                     any(ex.same(v, ex.get_field(t, 'lineno')) for v in fmt), {'formatted': [str(v) for v in fmt]})
            ex.prove('C20:p_error[token]:message-shows-nothing-else-from-the-lexer', ['C20'],
                     all(ex.same(v, ex.get_field(t, 'value')) or ex.same(v, ex.get_field(t, 'lineno')) for v in fmt))
        else:
            fmt = getattr(ex, 'formatted', [])
            lits = [s for s in getattr(ex, 'fstring_literals', [])]
            ex.prove('C20:p_error[end]:message-says-end-of-input', ['C20', 'C16'],
                     any('end of input' in s.lower() or 'end of file' in s.lower() or 'eof' in s.lower() for s in lits),
                     {'literals': lits})


def p_error_tasks(engine):
    fi = engine.src.funcs.get(MOD + 'p_error')
    out = []
    if fi is None:
        return out
    for which in ('token', 'end'):
        def setup(ex, which=which):
            sh = engine.shapes
            env = Env()
            ctx = {'env': env, 'which': which}
            if which == 'token':
                t = z3.Int('tok_ref')
                lx = z3.Int('lexer_ref')
                ex.assume(z3.And(t >= 0, lx >= 0, t != lx, t < ex.entry_next, lx < ex.entry_next))
                ex.assume(L.cls_of(t) == sh.cid('LexToken'))
                ex.assume(L.cls_of(lx) == sh.cid('Lexer'))
                ex.note_class(t, 'LexToken', exact=True)
                ex.note_class(lx, 'Lexer', exact=True)
                ex.assume(ex.heap.fld('lexer', t) == L.ObjV(lx))
                ex.assume(L.is_Int(ex.heap.fld('lineno', t)))
                ex.assume(L.is_Int(ex.heap.fld('lineno', lx)))
                env.vars[fi.params()[0][0]] = L.ObjV(t)
                ctx['t'] = t
            else:
                env.vars[fi.params()[0][0]] = L.NoneV
            ctx['entry'] = ex.heap.copy()
            ex.ctx = ctx
            return ctx
        out.append(Task(fi.key, 'parser_action', fi, setup, [F.Raises], PError(engine), label=fi.key + '[%s]' % which))
    return out


SLICE_VARIANTS = None


def tasks(engine):
    out = []
    src = engine.src
    slice_alts = []
    fi_slice = src.funcs.get(MOD + 'p_slice')
    if fi_slice is not None:
        slice_alts = [tuple(rhs) for lhs, rhs, prec in grammar_alternatives(fi_slice)]
    for key, fi in sorted(src.funcs.items()):
        if not key.startswith(MOD + 'p_') or fi.name == 'p_error' or fi.parent is not None:
            continue
        for lhs, rhs, prec in grammar_alternatives(fi):
            variants = [None]
            if 'slice' in rhs:
                variants = slice_alts
            for var in variants:
                label = '%s[%s -> %s]%s' % (fi.key, lhs, ' '.join(rhs) or 'ε', '{%s}' % ' '.join(var) if var else '')
                t = Task(fi.key, 'parser_action', fi, alt_setup(engine, fi, lhs, rhs, var), [F.Raises],
                         AltSpec(engine, fi.name, lhs, rhs), label=label)
                t.builds_trees = True
                out.append(t)
    out.extend(p_error_tasks(engine))
    return out


def contracts(engine):
    return {}
