"""Contracts of smartquery/lexer.py: one task per t_* rule function (C15 Y3, C20 Z2, C08 E1, C18 L2, C16 X1).

The token text t.value of a rule is any string of the rule's regex language; for rules whose language is a
finite set of literals (read from the real docstring regex) the contract is checked once per literal."""
import ast
import re
import z3

from sqv import logic as L
from sqv.logic import Val, I, B
from sqv.symex import Env, St, PyRaise, PathEnd, Unsupported
from sqv.engine import Task
from sqv import families as F
from .common import *

MOD = 'smartquery.lexer:'
PE = 'ParserError'


def literal_language(regex):
    """the finite set of strings a regex denotes, if it is an alternation of literal strings; else None"""
    try:
        import re._parser as sre_parse
    except ImportError:      # pragma: no cover
        import sre_parse
    try:
        p = sre_parse.parse(regex, re.VERBOSE)
    except Exception:
        return None

    def seq(items):
        outs = ['']
        for op, av in items:
            name = str(op)
            if name == 'LITERAL':
                outs = [o + chr(av) for o in outs]
            elif name == 'BRANCH':
                alts = []
                for branch in av[1]:
                    r = seq(list(branch))
                    if r is None:
                        return None
                    alts.extend(r)
                outs = [o + a for o in outs for a in alts]
            elif name == 'IN' and len(av) >= 1 and all(str(x[0]) == 'LITERAL' for x in av):
                outs = [o + chr(x[1]) for o in outs for x in av]
            elif name == 'SUBPATTERN':
                r = seq(list(av[3]))
                if r is None:
                    return None
                outs = [o + a for o in outs for a in r]
            else:
                return None
        return outs
    return seq(list(p))


def token_setup(engine, fi, value_literal=None, extra=None):
    def setup(ex):
        sh = engine.shapes
        t = z3.Int('tok_ref')
        lx = z3.Int('lexer_ref')
        ex.assume(z3.And(t >= 0, lx >= 0, t != lx, t < ex.entry_next, lx < ex.entry_next))
        ex.assume(L.cls_of(t) == sh.cid('LexToken'))
        ex.assume(L.cls_of(lx) == sh.cid('Lexer'))
        ex.note_class(t, 'LexToken', exact=True)
        ex.note_class(lx, 'Lexer', exact=True)
        h = ex.heap
        ex.assume(h.fld('lexer', t) == L.ObjV(lx))
        ex.assume(L.is_Int(h.fld('lineno', lx)))
        ex.assume(L.is_Int(h.fld('paren_count', lx)))
        ex.assume(L.is_Str(h.fld('type', t)))
        if value_literal is not None:
            ex.assume(h.fld('value', t) == ex.str_lit(value_literal))
        else:
            ex.assume(L.is_Str(h.fld('value', t)))
            ex.assume(L.slen(Val.s(h.fld('value', t))) >= 1)
        env = Env()
        env.vars[fi.params()[0][0]] = L.ObjV(t)
        ctx = {'env': env, 't': t, 'lexer': lx, 'tok': L.ObjV(t), 'entry': ex.heap.copy(), 'value_literal': value_literal}
        ex.ctx = ctx
        ex.task.watch = {'paren_count': h.fld('paren_count', lx), 'lineno': h.fld('lineno', lx), 'value': h.fld('value', t)}
        return ctx
    return setup


class TokenSpec(FnContract):
    def __init__(self, engine, name):
        self.engine = engine
        self.name = name

    def check(self, ex, ctx, outcome):
        name = self.name
        t, lx = ctx['t'], ctx['lexer']
        h0, h = ctx['entry'], ex.heap
        fw = [e for e in ex.events if e[0] == 'field_write']
        n = name
        # frame: a rule touches only its token and the two lexer counters
        fw = [e for e in fw if not ex.same(L.BoolV(ex.is_fresh(e[1])), L.TrueV)]        # objects the rule creates are its own
        for e in fw:
            ok = (e[2] in ('value', 'type') and True) or e[2] in ('lineno', 'paren_count')
            ex.prove('C11:%s:writes-only-token-fields-and-lexer-counters[%s]' % (n, e[2]), ['C11', 'C15', 'C20'], ok)
            if e[2] in ('lineno', 'paren_count'):
                ex.prove('C11:%s:counter-written-on-its-own-lexer' % n, ['C11', 'C20', 'C15'], e[1] == lx)
            if e[2] in ('value', 'type'):
                ex.prove('C11:%s:writes-its-own-token' % n, ['C11', 'C18'], e[1] == t)
        line0, line1 = Val.i(h0.fld('lineno', lx)), Val.i(h.fld('lineno', lx))
        pc0, pc1 = Val.i(h0.fld('paren_count', lx)), Val.i(h.fld('paren_count', lx))
        if name == 't_error':
            ex.prove('C16:t_error:illegal-character-is-ParserError', ['C16'],
                     outcome[0] == 'raise' and True and L.exc_is_sub(outcome[1], PE) if outcome[0] == 'raise' else False)
            return
        if outcome[0] == 'raise':
            if name == 't_NUMBER' and [e for e in ex.events if e[0] == 'raise' and 'InvalidOperation' in str(e[2])]:
                ex.use_assumption('A-NUMBER-LITERAL: decimal.Decimal accepts every string of the NUMBER regex (digits with an optional fraction)')
                return
            ex.prove('C16:%s:token-rule-does-not-fail' % n, ['C16', 'C15'], False)
            return
        r = outcome[1]
        tok = ctx['tok']
        lit = ctx['value_literal']
        if name == 't_NEWLINE':
            nl = lit.count('\n')
            ex.prove('C20:t_NEWLINE:line-counter-advances-by-the-line-breaks-in-the-token[%r]' % lit, ['C20'],
                     line1 == line0 + nl, {'watch': {'lineno_before': line0, 'lineno_after': line1}})
            is_break = nl > 0
            want_token = z3.Or(z3.BoolVal(not is_break), pc0 == 0)
            ex.prove('C15:t_NEWLINE:line-break-is-a-separator-exactly-outside-brackets[%r]' % lit, ['C15'],
                     z3.If(want_token, r == tok, r == L.NoneV), {'watch': {'result': r}})
            ex.prove('C15:t_NEWLINE:bracket-depth-untouched[%r]' % lit, ['C15'], pc1 == pc0)
            ex.prove('C15:t_NEWLINE:separator-token-kind-and-text-untouched[%r]' % lit, ['C15', 'C20'],
                     z3.And(h.fld('type', t) == h0.fld('type', t), h.fld('value', t) == h0.fld('value', t)))
        elif name in BRACKETS:
            ex.prove('C15:%s:bracket-depth-tracks-open-minus-close' % n, ['C15'], pc1 == pc0 + BRACKETS[name])
            ex.prove('C15:%s:returns-its-token-unchanged' % n, ['C15', 'C20'],
                     z3.And(r == tok, line1 == line0, h.fld('type', t) == h0.fld('type', t),
                            h.fld('value', t) == h0.fld('value', t)))
        elif name == 't_COMMENT':
            ex.prove('C15:t_COMMENT:comments-produce-no-token-and-change-nothing', ['C15', 'C18', 'C20'],
                     z3.And(r == L.NoneV, line1 == line0, pc1 == pc0))
        elif name == 't_NUMBER':
            decs = [e for e in ex.events if e[0] == 'prim' and e[1] == 'decimal_of']
            ex.prove('C08:t_NUMBER:literal-converted-once-from-its-text', ['C08', 'C07'], len(decs) == 1)
            if decs:
                ex.prove('C08:t_NUMBER:value-is-Decimal-of-the-token-text-itself', ['C08', 'C07'],
                         z3.And(decs[0][2] == h0.fld('value', t), h.fld('value', t) == decs[0][3],
                                h.fld('value', t) == L.DecV(L.dec_of_str(Val.s(h0.fld('value', t))))))
            ex.prove('C08:t_NUMBER:no-binary-float-on-the-way', ['C08'],
                     not [e for e in ex.events if e[0] in ('float_of',)])
            for d in decs:
                ex.prove('C08:t_NUMBER:Decimal-built-from-text-not-from-a-float', ['C08'], L.is_Str(d[2]))
            ex.prove('C15:t_NUMBER:returns-its-token-counters-untouched', ['C15', 'C20'],
                     z3.And(r == tok, line1 == line0, pc1 == pc0, h.fld('type', t) == h0.fld('type', t)))
        elif name == 't_NAME':
            reserved = self.engine.src.globals['lexer'].get('reserved')
            table = resolve_dict(self.engine, 'lexer', 'reserved')
            v0 = h0.fld('value', t)
            want = ex.str_lit('NAME')
            for k, val in table.items():
                want = z3.If(v0 == ex.str_lit(k), ex.str_lit(val), want)
            ex.prove('C18:t_NAME:keywords-get-their-own-kind-everything-else-is-NAME', ['C18', 'C06'],
                     h.fld('type', t) == want, {'watch': {'type': h.fld('type', t)}})
            ex.prove('C18:t_NAME:name-text-unchanged', ['C18'], h.fld('value', t) == v0)
            ex.prove('C15:t_NAME:returns-its-token-counters-untouched', ['C15', 'C20'],
                     z3.And(r == tok, line1 == line0, pc1 == pc0))
        elif name == 't_STRING':
            ex.prove('C15:t_STRING:returns-its-token-with-a-string-value-counters-untouched', ['C15', 'C20', 'C18'],
                     z3.And(r == tok, L.is_Str(h.fld('value', t)), line1 == line0, pc1 == pc0,
                            h.fld('type', t) == h0.fld('type', t)))
        else:
            ex.prove('C15:%s:returns-its-token-or-None-counters-untouched' % n, ['C15', 'C20'],
                     z3.And(z3.Or(r == tok, r == L.NoneV), line1 == line0, pc1 == pc0))


BRACKETS = {'t_LPAREN': 1, 't_LBRACKET': 1, 't_LBRACE': 1, 't_RPAREN': -1, 't_RBRACKET': -1, 't_RBRACE': -1}


def resolve_dict(engine, module, name):
    """fold a module-level dict of string literals (with ** of other such dicts)"""
    g = engine.src.globals[module].get(name)
    out = {}
    if not g or g[0] != 'const' or not isinstance(g[1], ast.Dict):
        return out
    for k, v in zip(g[1].keys, g[1].values):
        if k is None and isinstance(v, ast.Name):
            out.update(resolve_dict(engine, module, v.id))
        elif isinstance(k, ast.Constant) and isinstance(v, ast.Constant):
            out[k.value] = v.value
    return out


def tasks(engine):
    out = []
    for key, fi in sorted(engine.src.funcs.items()):
        if not key.startswith(MOD + 't_') or '.' in key.split(':')[1]:
            continue
        name = fi.name
        doc = fi.docstring()
        lang = literal_language(doc) if doc else None
        if name == 't_NEWLINE':
            if lang is None:
                lang = [None]
            for lit in lang:
                t = Task(fi.key, 'token_rule', fi, token_setup(engine, fi, lit), [F.Raises], TokenSpec(engine, name),
                         label=fi.key + '[%r]' % lit)
                out.append(t)
        else:
            out.append(Task(fi.key, 'token_rule', fi, token_setup(engine, fi), [F.Raises], TokenSpec(engine, name)))
    return out


def contracts(engine):
    return {}
