"""Entry-specific specs of the FUNCTIONS table: container model (C14, C03 S2), random ranges (C19),
regex timeout (C05), failure classes (C16), value semantics of index assignment (C12)."""
import z3

from sqv import logic as L
from sqv.logic import Val, I, B
from sqv import families as F
from sqv.calls import Pack
from .common import *

PE = 'ParserError'
K = z3.Int('K_view')          # skolem position: views are compared at every position
KV = z3.Const('K_key', Val)   # skolem key


def lab(ex):
    return fn(ex)


def arg(ctx, name):
    """the argument a spec calls `name`: by the PUBLISHED position of that parameter (a program passes arguments by
    position; the source may call the parameter differently)"""
    from .published import PUBLISHED_PARAMS
    from sqv.calls import Pack
    names = PUBLISHED_PARAMS.get(ctx.get('builtin_name'), [])
    if name in names and names.index(name) < len(ctx.get('args', [])):
        v = ctx['args'][names.index(name)]
        if not isinstance(v, Pack):
            return v
    return ctx['env'].vars.get(name)


def ev(ex, kind, sub=None):
    return [e for e in ex.events if e[0] == kind and (sub is None or e[1] == sub)]


def writes(ex):
    return [e for e in ex.events if e[0] == 'write' and not e[2].startswith('scope-')]


def norm(i, n):
    return z3.If(i < 0, i + n, i)


def intval(v):
    return z3.If(L.is_Bool(v), z3.If(Val.b(v), 1, 0), Val.i(v))


def list_key(k):
    """C14 key normalisation on lists: Decimal -> truncated int, everything else unchanged"""
    return z3.If(L.is_Dec(k), L.IntV(L.UF('dec_trunc', I, I)(Val.d(k))), k)


def dict_key(k):
    return z3.If(L.is_Str(k), k, L.StrV(L.str_of(k)))


def key_norm(c, k):
    return z3.If(L.is_Dict(c), dict_key(k), list_key(k))


def unchanged(ex, ctx, name, props):
    """no object that existed before the call is modified (new objects may be allocated)"""
    entry = ctx['entry']
    changed = [k for k, v in ex.heap.a.items() if k.startswith('F_') and k not in ('F_ops_evaluated', 'F_sl_start', 'F_sl_stop', 'F_sl_step')
               and not v.eq(entry.arr(k))]
    ex.prove('%s:%s:no-field-modified' % (props[0], name), props, not changed, {'changed': changed})
    for w in writes(ex):
        ex.prove('%s:%s:no-pre-existing-container-modified[%s]' % (props[0], name, w[2]), props, ex.is_fresh(w[3]), soft=True)


# ---------------------------------------------------------------------------------------------
def generic(ex, ctx, outcome, name):
    # C05 R4: only the three regex builtins call into the regex engine
    rc = ev(ex, 'regex_call')
    if name not in ('match', 'match_groups', 'match_all'):
        if rc:
            ex.prove('C05:%s:only-the-regex-builtins-call-the-regex-engine' % lab(ex), ['C05'], False)
    else:
        regex_spec(ex, ctx, outcome, name, rc)
    # C03 S2: element-adding operations at the cap fail with ParserError and change nothing
    if name in ('push', 'insert', '__setitem__', '__setitem_with_op__'):
        cap_spec(ex, ctx, outcome, name)


def regex_spec(ex, ctx, outcome, name, rc):
    n = lab(ex)
    unk = ev(ex, 'unknown_call') + ev(ex, 'unmodelled_call')
    ex.prove('C05:%s:no-regex-work-outside-the-modelled-timeout-calls' % n, ['C05'], not unk,
             {'calls': [str(e[1]) for e in unk]})
    if outcome[0] == 'return':
        ex.prove('C05:%s:result-comes-from-one-regex-call' % n, ['C05', 'C07'], len(rc) == 1)
    try:
        const = ex.engine.src.const('functions', 'REGEX_TIMEOUT')
    except Exception:
        const = None
    for e in rc:
        kw = e[3]
        has = 'timeout' in kw
        ex.prove('C05:%s:regex-call-passes-a-timeout' % n, ['C05'], has)
        if has:
            lit = ex.engine.float_lit(ex, const) if isinstance(const, float) else None
            ex.prove('C05:%s:timeout-is-the-module-constant' % n, ['C05'],
                     (kw['timeout'] == lit) if lit is not None else False, {'watch': {'timeout': kw['timeout']}})
        # pattern, subject order: regex.search(pattern, s)
        vals = e[2]
        if len(vals) >= 2:
            ex.prove('C07:%s:pattern-then-subject' % n, ['C07'],
                     z3.And(vals[0] == arg(ctx, 'pattern'), vals[1] == arg(ctx, 's')))
        if 'flags' in kw:
            pf = [p for p in ex.events if p[0] == 'prim' and p[1] == 'parse_flags']
    if outcome[0] == 'return':
        r = outcome[1]
        if name == 'match':
            ex.prove('C02:%s:returns-text-or-None' % n, ['C02', 'C07'], z3.Or(L.is_None(r), L.is_Str(r)))
        elif name == 'match_groups':
            ex.prove('C02:%s:returns-list-or-None' % n, ['C02', 'C07'], z3.Or(L.is_None(r), L.is_List(r)))
        else:
            ex.prove('C02:%s:returns-a-list' % n, ['C02', 'C07'], L.is_List(r))


def container_len(ex, h, c):
    return z3.If(L.is_List(c), h.llen(Val.lref(c)), z3.If(L.is_Dict(c), h.dlen(Val.dref(c)),
                 z3.If(L.is_Tuple(c), h.llen(Val.tref(c)), L.slen(Val.s(c)))))


def cap_spec(ex, ctx, outcome, name):
    n = lab(ex)
    c = ctx['args'][0]
    h0 = ctx['entry']
    is_c = z3.Or(L.is_List(c), L.is_Dict(c))
    n0 = container_len(ex, h0, c)
    w = {'watch': {'len_at_entry': n0}}
    if outcome[0] == 'return':
        ex.prove('C03:%s:never-succeeds-on-a-full-container' % n, ['C03'], z3.Implies(is_c, n0 < F.MAX_ARRAY), w)
    else:
        ex.prove('C03:%s:full-container-gives-ParserError' % n, ['C03', 'C16'],
                 z3.Implies(z3.And(is_c, n0 >= F.MAX_ARRAY), L.exc_is_sub(outcome[1], PE)), w)
        if ev(ex, 'cap_error'):
            ex.prove('C03:%s:container-unchanged-when-the-cap-error-is-raised' % n, ['C03', 'C14'], not writes(ex),
                     {'writes': [e[2] for e in writes(ex)]})


# --------------------------------------------------------------------------------------------- C14
def spec_getitem(ex, ctx, outcome):
    n = lab(ex)
    c, k = arg(ctx, 'container'), arg(ctx, 'key')
    h0 = ctx['entry']
    kc = key_norm(c, k)
    unchanged(ex, ctx, n, ['C14', 'C13'])
    lr, dr = Val.lref(c), Val.dref(c)
    ln = h0.llen(lr)
    j = norm(intval(kc), ln)
    idx = z3.Or(L.is_Int(kc), L.is_Bool(kc))
    in_range = z3.And(j >= 0, j < ln)
    if outcome[0] == 'return':
        r = outcome[1]
        ex.prove('C14:%s:list-read-yields-the-element-at-the-normalised-position' % n, ['C14', 'C07'],
                 z3.Implies(z3.And(L.is_List(c), idx), z3.And(in_range, r == h0.lelt(lr, j))))
        ex.prove('C14:%s:dict-read-yields-the-value-under-the-normalised-key' % n, ['C14', 'C07'],
                 z3.Implies(L.is_Dict(c), z3.And(h0.dhas(dr, kc), r == h0.dval(dr, kc))))
    else:
        lookup_failed = [e for e in ev(ex, 'raise') if isinstance(e[1], int) and
                         e[1] in (L.EXC_ID['IndexError'], L.EXC_ID['KeyError'])]
        if lookup_failed:
            ex.prove('C14:%s:missing-key-or-index-is-ParserError' % n, ['C14', 'C16', 'C07'],
                     L.exc_is_sub(outcome[1], PE))
        # ... and only then: a key that is present / a position in range is read, whatever is stored there (None too)
        ex.prove('C14:%s:a-present-key-or-position-never-fails' % n, ['C14', 'C07'],
                 z3.Not(z3.Or(z3.And(L.is_Dict(c), h0.dhas(dr, kc)),
                              # (a Decimal position may fail in its own conversion: NaN, Infinity)
                              z3.And(L.is_List(c), z3.Or(L.is_Int(k), L.is_Bool(k)), in_range))))


def F_hashable(v):
    return z3.Not(z3.Or(L.is_List(v), L.is_Dict(v), L.is_Slice(v)))


def stored_copy_check(ex, n, stored, source):
    """C12 V2: the stored value is a deep copy made by this activation (or atomic)"""
    stored = L.simp(stored)
    dc = [d for d in ex.deepcopies if ex.same(d[0], stored)]
    if dc and not dc[0][2]:
        ex.prove('C12:%s:stored-value-is-an-independent-copy' % n, ['C12', 'C07'], True)
        ex.prove('C12:%s:copy-is-of-the-assigned-value' % n, ['C12', 'C07'], dc[0][1] == L.refof(source))
    else:
        ex.prove('C12:%s:stored-value-is-an-independent-copy' % n, ['C12', 'C07'],
                 z3.Or(L.is_scalar(stored), L.is_Fun(stored), L.is_Slice(stored)),
                 {'watch': {'stored': stored}, 'deepcopy_with_memo': bool(dc)})


def spec_setitem(ex, ctx, outcome):
    n = lab(ex)
    c, k, v = arg(ctx, 'container'), arg(ctx, 'key'), arg(ctx, 'value')
    h0, h = ctx['entry'], ex.heap
    kc = key_norm(c, k)
    ws = writes(ex)
    if outcome[0] != 'return':
        return
    # index assignment is a statement: statements yield None (C07)
    ex.prove('C07:%s:index-assignment-statement-yields-None' % n, ['C07'], outcome[1] == L.NoneV, {'watch': {'result': outcome[1]}})
    ex.prove('C14:%s:exactly-one-write' % n, ['C14', 'C07', 'C13'], len(ws) == 1, {'writes': [e[2] for e in ws]})
    if len(ws) != 1:
        return
    w = ws[0]
    stored = w[6][-1] if w[6] else None
    ex.prove('C14:%s:writes-the-container-it-was-given' % n, ['C14', 'C07'], w[3] == L.refof(c))
    if stored is not None:
        stored_copy_check(ex, n, stored, v)
        # what the statement hands back (its operand, KF-C07-setitem) is not the object that now sits in the container
        ex.prove('C12:%s:result-does-not-alias-the-stored-copy' % n, ['C12', 'C07'],
                 z3.Or(L.is_scalar(stored), L.is_Fun(stored), L.is_Slice(stored), outcome[1] != stored),
                 {'watch': {'result': outcome[1], 'stored': stored}})
        lr, dr = Val.lref(c), Val.dref(c)
        ln = h0.llen(lr)
        j = norm(intval(kc), ln)
        idx = z3.Or(L.is_Int(kc), L.is_Bool(kc))
        ex.prove('C14:%s:list-write-replaces-exactly-the-normalised-position' % n, ['C14', 'C07'],
                 z3.Implies(z3.And(L.is_List(c), idx),
                            z3.And(h.llen(lr) == ln, j >= 0, j < ln,
                                   h.lelt(lr, K) == z3.If(K == j, stored, h0.lelt(lr, K)))))
        had = h0.dhas(dr, kc)
        ex.prove('C14:%s:dict-write-binds-exactly-the-normalised-key' % n, ['C14', 'C07'],
                 z3.Implies(L.is_Dict(c),
                            z3.And(h.dhas(dr, kc), h.dval(dr, kc) == stored,
                                   h.dlen(dr) == h0.dlen(dr) + z3.If(had, 0, 1),
                                   z3.Implies(KV != kc, z3.And(h.dhas(dr, KV) == h0.dhas(dr, KV),
                                                               h.dval(dr, KV) == h0.dval(dr, KV))))))


def spec_setitem_with_op(ex, ctx, outcome):
    n = lab(ex)
    c, k, op, v = arg(ctx, 'container'), arg(ctx, 'key'), arg(ctx, 'op'), arg(ctx, 'value')
    h0, h = ctx['entry'], ex.heap
    kc = key_norm(c, k)
    ops_ = [e for e in ex.events if e[0] == 'prim' and e[1] == 'mul_call'] or \
           [e for e in ex.events if e[0] == 'prim' and e[1] == 'binop']
    known_op = z3.Or([op == ex.str_lit(s) for s in ('+=', '-=', '*=', '/=')])
    if outcome[0] == 'raise':
        rs = ev(ex, 'raise')
        if rs and str(rs[-1][2]).startswith('explicit') and not ev(ex, 'cap_error'):
            ex.prove('C16:%s:unsupported-operator-is-ParserError' % n, ['C16', 'C07'],
                     z3.And(z3.Not(known_op), L.exc_is_sub(outcome[1], PE)))
    for p in ops_:
        rhs = L.simp(p[4])
        dc = [d for d in ex.deepcopies if ex.same(d[0], rhs) and not d[2]]
        ex.prove('C12:%s:operand-is-an-independent-copy' % n, ['C12'],
                 True if dc else z3.Or(L.is_scalar(rhs), L.is_Fun(rhs), L.is_Slice(rhs)), {'watch': {'operand': rhs}})
        sym = {'+': '+=', '-': '-=', '*': '*=', '/': '/='}.get(p[2])
        ex.prove('C07:%s:applies-the-operator-it-was-given' % n, ['C07', 'C14'], op == ex.str_lit(sym) if sym else False)
        if p[1] == 'binop':
            ex.prove('C07:%s:compound-assignment-applies-the-in-place-operator' % n, ['C07', 'C12', 'C14'], p[5] is True)
        # left operand is the element currently stored under the normalised key
        lr, dr = Val.lref(c), Val.dref(c)
        j = norm(intval(kc), h0.llen(lr))
        idx = z3.Or(L.is_Int(kc), L.is_Bool(kc))
        ex.prove('C14:%s:operates-on-the-element-under-the-normalised-key' % n, ['C14', 'C07'],
                 z3.And(z3.Implies(z3.And(L.is_List(c), idx), p[3] == h0.lelt(lr, j)),
                        z3.Implies(L.is_Dict(c), p[3] == h0.dval(dr, kc))))
    if outcome[0] == 'return':
        ex.prove('C07:%s:compound-index-assignment-statement-yields-None' % n, ['C07'], outcome[1] == L.NoneV,
                 {'watch': {'result': outcome[1]}})
        ex.prove('C07:%s:one-operator-application' % n, ['C07', 'C14'], len(ops_) == 1)
        ws = [w for w in writes(ex) if w[2] in ('setitem', 'store', 'setslice')]
        ex.prove('C14:%s:stores-the-result-back-once' % n, ['C14', 'C07'], len(ws) == 1)
        if len(ws) == 1 and len(ops_) == 1:
            w = ws[0]
            if w[6]:
                stored = w[6][-1]
                ex.prove('C14:%s:stores-the-operator-result-under-the-same-key' % n, ['C14', 'C07'],
                         z3.And(w[3] == L.refof(c), stored == ops_[0][6]))


def spec_delitem(ex, ctx, outcome):
    n = lab(ex)
    c, k = arg(ctx, 'container'), arg(ctx, 'key')
    h0, h = ctx['entry'], ex.heap
    kc = key_norm(c, k)
    if outcome[0] != 'return':
        return
    ex.prove('C07:%s:del-statement-yields-None' % n, ['C07'], outcome[1] == L.NoneV)
    ws = writes(ex)
    dr, lr = Val.dref(c), Val.lref(c)
    had = h0.dhas(dr, kc)
    ex.prove('C14:%s:at-most-one-write' % n, ['C14', 'C13'], len(ws) <= 1)
    ex.prove('C14:%s:dict-key-removed-if-present-else-unchanged' % n, ['C14', 'C07'],
             z3.Implies(L.is_Dict(c), z3.And(z3.Not(h.dhas(dr, kc)),
                                             h.dlen(dr) == h0.dlen(dr) - z3.If(had, 1, 0),
                                             z3.Implies(KV != kc, z3.And(h.dhas(dr, KV) == h0.dhas(dr, KV),
                                                                         h.dval(dr, KV) == h0.dval(dr, KV))))))
    ln = h0.llen(lr)
    i = intval(kc)
    idx = z3.Or(L.is_Int(kc), L.is_Bool(kc))
    j = norm(i, ln)
    ex.prove('C14:%s:list-position-removed-if-in-range-else-unchanged' % n, ['C14', 'C07'],
             z3.Implies(z3.And(L.is_List(c), idx),
                        z3.If(ln > i, z3.And(h.llen(lr) == ln - 1,
                                             h.lelt(lr, K) == z3.If(K < j, h0.lelt(lr, K), h0.lelt(lr, K + 1))),
                              z3.And(h.llen(lr) == ln, h.lelts(lr) == h0.lelts(lr)))))


def spec_get(ex, ctx, outcome):
    n = lab(ex)
    c, k, d = arg(ctx, 'container'), arg(ctx, 'key'), ex.to_val(arg(ctx, 'default'))
    h0 = ctx['entry']
    kc = key_norm(c, k)
    unchanged(ex, ctx, n, ['C14', 'C13'])
    if outcome[0] == 'return':
        dr = Val.dref(c)
        ex.prove('C14:%s:value-under-the-normalised-key-or-the-default' % n, ['C14', 'C07'],
                 z3.Implies(L.is_Dict(c), outcome[1] == z3.If(h0.dhas(dr, kc), h0.dval(dr, kc), d)))


def spec_push(ex, ctx, outcome):
    n = lab(ex)
    a, v = arg(ctx, 'arr'), arg(ctx, 'v')
    h0, h = ctx['entry'], ex.heap
    if outcome[0] == 'return':
        lr = Val.lref(a)
        ln = h0.llen(lr)
        ex.prove('C14:%s:appends-exactly-the-value' % n, ['C14', 'C07'],
                 z3.Implies(L.is_List(a), z3.And(h.llen(lr) == ln + 1, h.lelt(lr, ln) == v,
                                                 z3.Implies(z3.And(K >= 0, K < ln), h.lelt(lr, K) == h0.lelt(lr, K)))))
        ex.prove('C14:%s:touches-only-its-list' % n, ['C14', 'C13'], len(writes(ex)) == 1)


def spec_insert(ex, ctx, outcome):
    n = lab(ex)
    a, i, v = arg(ctx, 'arr'), arg(ctx, 'i'), arg(ctx, 'v')
    h0, h = ctx['entry'], ex.heap
    if outcome[0] == 'return':
        lr = Val.lref(a)
        ln = h0.llen(lr)
        ws = writes(ex)
        ex.prove('C14:%s:touches-only-its-list' % n, ['C14', 'C13'], len(ws) == 1)
        li = getattr(ex, 'last_insert', None)
        ex.prove('C14:%s:inserts-into-a-list' % n, ['C14', 'C07'], z3.Implies(L.is_List(a), z3.BoolVal(li is not None)))
        if li is not None:
            r, pos, val = li
            ex.prove('C14:%s:inserts-the-value-into-its-list' % n, ['C14', 'C07'], z3.And(r == lr, val == v))
            ex.prove('C14:%s:list-grows-by-one-rest-shifted' % n, ['C14', 'C07'],
                     z3.And(h.llen(lr) == ln + 1, pos >= 0, pos <= ln,
                            h.lelt(lr, K) == z3.If(K < pos, h0.lelt(lr, K), z3.If(K == pos, v, h0.lelt(lr, K - 1)))))
            # integer and decimal positions address the (truncated) integer position, negatives count from the end
            want = position_of(i)
            clamp = z3.If(want < 0, z3.If(want + ln < 0, 0, want + ln), z3.If(want > ln, ln, want))
            ex.prove('C14:%s:position-is-the-truncated-integer-position' % n, ['C14', 'C07'],
                     z3.Implies(numeric_position(i), pos == clamp), {'watch': {'i': i, 'len': ln, 'pos': pos}})


def numeric_position(i):
    return z3.Or(L.is_Int(i), L.is_Bool(i), z3.And(L.is_Dec(i), L.dec_finite(Val.d(i))))


def position_of(i):
    return z3.If(L.is_Dec(i), L.UF('dec_trunc', I, I)(Val.d(i)), intval(i))


def spec_pop(ex, ctx, outcome):
    n = lab(ex)
    a, i = arg(ctx, 'arr'), ex.to_val(arg(ctx, 'i'))
    h0, h = ctx['entry'], ex.heap
    lr = Val.lref(a)
    ln = h0.llen(lr)
    if outcome[0] == 'return':
        lp = getattr(ex, 'last_pop', None)
        if lp is not None:
            r, j, x = lp
            ex.prove('C14:%s:removes-and-returns-the-addressed-element' % n, ['C14', 'C07'],
                     z3.Implies(L.is_List(a),
                                z3.And(r == lr, outcome[1] == h0.lelt(lr, j), h.llen(lr) == ln - 1,
                                       z3.Implies(L.is_None(i), j == ln - 1),
                                       z3.Implies(numeric_position(i), j == norm(position_of(i), ln)),
                                       h.lelt(lr, K) == z3.If(K < j, h0.lelt(lr, K), h0.lelt(lr, K + 1)))))
    else:
        ex.prove('C14:%s:pop-from-empty-list-is-ParserError' % n, ['C14', 'C16', 'C07'],
                 z3.Implies(z3.And(L.is_List(a), ln == 0,
                                   z3.Or(L.is_None(i), L.is_Int(i), L.is_Bool(i),
                                         z3.And(L.is_Dec(i), L.dec_finite(Val.d(i))))),
                            L.exc_is_sub(outcome[1], PE)))
        ex.prove('C14:%s:failed-pop-changes-nothing' % n, ['C14', 'C13'], not writes(ex))


def spec_remove(ex, ctx, outcome):
    n = lab(ex)
    c, v = arg(ctx, 'container'), arg(ctx, 'v')
    h0, h = ctx['entry'], ex.heap
    if outcome[0] == 'return':
        ws = writes(ex)
        lr, dr = Val.lref(c), Val.dref(c)
        ex.prove('C14:%s:at-most-one-write-to-its-container' % n, ['C14', 'C13'],
                 len(ws) <= 1 and all(True for w in ws))
        for w in ws:
            ex.prove('C14:%s:writes-its-container' % n, ['C14'], w[3] == L.refof(c))
        ex.prove('C14:%s:list-shrinks-by-at-most-one' % n, ['C14', 'C07'],
                 z3.Implies(L.is_List(c), z3.Or(h.llen(lr) == h0.llen(lr) - 1,
                                                z3.And(h.llen(lr) == h0.llen(lr), h.lelts(lr) == h0.lelts(lr)))))
        ex.prove('C14:%s:dict-key-removed-if-present' % n, ['C14', 'C07'],
                 z3.Implies(z3.And(L.is_Dict(c), F_hashable(v)), z3.Not(h.dhas(dr, v))))


def spec_index_of(ex, ctx, outcome):
    unchanged(ex, ctx, lab(ex), ['C14', 'C13'])
    if outcome[0] == 'return':
        r = outcome[1]
        ex.prove('C14:%s:position-or-None' % lab(ex), ['C14', 'C07'], z3.Or(L.is_None(r), L.is_Int(r)))


def _view_spec(kind):
    def spec(ex, ctx, outcome):
        n = lab(ex)
        unchanged(ex, ctx, n, ['C14', 'C13'])
        v = arg(ctx, 'value')
        if outcome[0] == 'return':
            r = outcome[1]
            dr = Val.dref(v)
            ex.prove('C14:%s:a-new-list-with-one-entry-per-key' % n, ['C14', 'C07', 'C02'],
                     z3.And(L.is_List(r), ex.is_fresh(Val.lref(r)),
                            z3.Implies(L.is_Dict(v), ex.heap.llen(Val.lref(r)) == ctx['entry'].dlen(dr))))
            if kind == 'keys':
                ex.prove('C14:%s:entries-are-the-keys-in-insertion-order' % n, ['C14', 'C07'],
                         z3.Implies(z3.And(L.is_Dict(v), K >= 0, K < ctx['entry'].dlen(dr)),
                                    ex.heap.lelt(Val.lref(r), K) == ctx['entry'].dkey(dr, K)))
    return spec


spec_keys = _view_spec('keys')
spec_values = _view_spec('values')
spec_items = _view_spec('items')


def spec_len(ex, ctx, outcome):
    unchanged(ex, ctx, lab(ex), ['C14', 'C13'])
    if outcome[0] == 'return':
        c = ctx['args'][0]
        ex.prove('C14:%s:number-of-elements' % lab(ex), ['C14', 'C07'],
                 z3.Implies(z3.Or(L.is_List(c), L.is_Dict(c), L.is_Tuple(c), L.is_Str(c)),
                            outcome[1] == L.IntV(container_len(ex, ctx['entry'], c))))


# --------------------------------------------------------------------------------------------- C07: glue of the other builtins
def stubs_applied(ex, name):
    return [e for e in ex.events if e[0] == 'stub' and e[1] == name]


def spec_sorted(ex, ctx, outcome):
    n = lab(ex)
    c, key, rev = arg(ctx, 'container'), ex.to_val(arg(ctx, 'key')), ex.to_val(arg(ctx, 'reverse'))
    ss = stubs_applied(ex, 'sorted')
    if outcome[0] == 'return':
        ex.prove('C07:%s:sorts-once' % n, ['C07', 'C13'], len(ss) == 1)
        for s in ss:
            kw = s[3]
            ex.prove('C07:%s:reverse-flag-passed-through' % n, ['C07'], ex.to_val(kw.get('reverse', L.FalseV)) == rev)
            ex.prove('C07:%s:a-list-is-sorted-itself-a-dict-by-its-items' % n, ['C07'],
                     z3.Implies(z3.Not(L.is_Dict(c)), s[2][0] == c))
        r = outcome[1]
        ex.prove('C07:%s:dict-gives-dict-everything-else-a-list' % n, ['C07', 'C02'],
                 z3.If(L.is_Dict(c), L.is_Dict(r), L.is_List(r)))


def spec_reversed(ex, ctx, outcome):
    n = lab(ex)
    c = arg(ctx, 'container')
    h0, h = ctx['entry'], ex.heap
    if outcome[0] == 'return':
        r = outcome[1]
        ex.prove('C07:%s:string-gives-string-everything-else-a-new-list' % n, ['C07', 'C02'],
                 z3.If(L.is_Str(c), L.is_Str(r), z3.And(L.is_List(r), ex.is_fresh(Val.lref(r)))))
        lr = Val.lref(c)
        ln = h0.llen(lr)
        ex.prove('C07:%s:list-elements-in-reverse-order' % n, ['C07', 'C14'],
                 z3.Implies(L.is_List(c), z3.And(h.llen(Val.lref(r)) == ln,
                                                 z3.Implies(z3.And(K >= 0, K < ln), h.lelt(Val.lref(r), K) == h0.lelt(lr, ln - 1 - K)))))


def spec_join(ex, ctx, outcome):
    n = lab(ex)
    c, sep = arg(ctx, 'container'), ex.to_val(arg(ctx, 'sep'))
    js = stubs_applied(ex, 'str.join')
    if outcome[0] == 'return':
        ex.prove('C07:%s:joins-once-with-the-separator-as-receiver' % n, ['C07'],
                 len(js) == 1 and True and (js[0][2][0] == sep) if js else False)
        ms = getattr(ex, 'mapped_str', [])
        ex.prove('C07:%s:joins-str()-of-each-element-of-the-container' % n, ['C07'],
                 z3.Implies(L.is_List(c), z3.And(ms[-1][2] == ctx['entry'].lelts(Val.lref(c)), outcome[1] == js[0][4]))
                 if ms and js else False)


def spec_split(ex, ctx, outcome):
    n = lab(ex)
    s, sep, mx = arg(ctx, 's'), ex.to_val(arg(ctx, 'sep')), ex.to_val(arg(ctx, 'max_split'))
    ss = stubs_applied(ex, 'str.split')
    if outcome[0] == 'return':
        ints = [e for e in ex.events if e[0] == 'int_of']
        ex.prove('C07:%s:splits-the-string-at-the-separator-with-int(max_split)' % n, ['C07'],
                 z3.And(ss[0][2][0] == s, ss[0][2][1] == sep, z3.BoolVal(len(ints) == 1), ints[0][1] == mx, outcome[1] == ss[0][4])
                 if len(ss) == 1 and ints else False)


def spec_replace(ex, ctx, outcome):
    n = lab(ex)
    s, old, new, cnt = arg(ctx, 's'), arg(ctx, 'old'), arg(ctx, 'new'), ex.to_val(arg(ctx, 'count'))
    ss = stubs_applied(ex, 'str.replace')
    if outcome[0] == 'return':
        ints = [e for e in ex.events if e[0] == 'int_of']
        ex.prove('C07:%s:replaces-old-by-new-in-the-string-int(count)-times' % n, ['C07'],
                 z3.And(ss[0][2][0] == s, ss[0][2][1] == old, ss[0][2][2] == new, z3.BoolVal(len(ints) == 1), ints[0][1] == cnt,
                        outcome[1] == ss[0][4]) if len(ss) == 1 and ints else False)


def spec_sum(ex, ctx, outcome):
    n = lab(ex)
    v = arg(ctx, 'value')
    if outcome[0] == 'return':
        sums = [e for e in ex.events if e[0] == 'sum_of']
        ex.prove('C07:%s:sum-of-a-list-anything-else-unchanged' % n, ['C07'],
                 z3.If(L.is_List(v), z3.And(z3.BoolVal(len(sums) == 1), sums[0][1] == v, outcome[1] == sums[0][4]) if sums else z3.BoolVal(False),
                       outcome[1] == v))


def spec_filter(ex, ctx, outcome):
    n = lab(ex)
    c, f = arg(ctx, 'container'), arg(ctx, 'f')
    fs = stubs_applied(ex, 'filter')
    if outcome[0] == 'return':
        ex.prove('C07:%s:filters-the-list-with-the-function' % n, ['C07'],
                 z3.And(L.is_List(c), ex.to_val(fs[0][2][0]) == f, fs[0][2][1] == c, L.is_List(outcome[1]), ex.is_fresh(Val.lref(outcome[1])))
                 if len(fs) == 1 else False)
    else:
        rs = ev(ex, 'raise')
        if rs and str(rs[-1][2]).startswith('explicit'):
            ex.prove('C16:%s:non-list-is-ParserError' % n, ['C16', 'C07'], z3.And(z3.Not(L.is_List(c)), L.exc_is_sub(outcome[1], PE)))


def spec_reduce(ex, ctx, outcome):
    n = lab(ex)
    c, f = arg(ctx, 'container'), arg(ctx, 'f')
    rs_ = stubs_applied(ex, 'reduce')
    if outcome[0] == 'return':
        ex.prove('C07:%s:reduces-the-container-with-the-function' % n, ['C07'],
                 z3.And(ex.to_val(rs_[0][2][0]) == f, rs_[0][2][1] == c) if len(rs_) == 1 and len(rs_[0][2]) == 2 else False)


def spec_list(ex, ctx, outcome):
    n = lab(ex)
    if outcome[0] == 'return':
        pack = arg(ctx, 'args')
        r = outcome[1]
        pr = Val.tref(pack)
        h0, h = ctx['entry'], ex.heap
        ex.prove('C07:%s:a-new-list-of-exactly-the-arguments' % n, ['C07', 'C14', 'C17'],
                 z3.And(L.is_List(r), ex.is_fresh(Val.lref(r)), h.llen(Val.lref(r)) == h0.llen(pr),
                        z3.Implies(z3.And(K >= 0, K < h0.llen(pr)), h.lelt(Val.lref(r), K) == h0.lelt(pr, K))))


def _numeric_lambda(prim):
    def spec(ex, ctx, outcome):
        n = lab(ex)
        if outcome[0] != 'return':
            return
        decs = [e for e in ex.events if e[0] == 'prim' and e[1] == 'decimal_of']
        inner = [e for e in ex.events if e[0] == prim]
        a0 = ctx['args'][0]
        v = ex.to_val(a0) if not isinstance(a0, Pack) else ctx['entry'].lelt(Val.tref(a0.val), 0)
        ok = len(decs) == 1 and len(inner) >= 1
        ex.prove('C07:%s:Decimal-of-%s-of-the-argument' % (n, prim.replace('_of', '')), ['C07', 'C08'],
                 z3.And(inner[0][1 if prim != 'floorceil_of' else 2] == v, outcome[1] == decs[0][3]) if ok else False)
    return spec


spec_int = _numeric_lambda('int_of')
spec_float = _numeric_lambda('float_of')
spec_abs = _numeric_lambda('abs_of')
spec_floor = _numeric_lambda('floorceil_of')
spec_ceil = _numeric_lambda('floorceil_of')
spec_round = _numeric_lambda('round_of')


def iter_map(ex, ctx, key, i, desc):
    """C07/C09 for map: one step applies the function exactly once to its own element (key and value for a dict)"""
    n = lab(ex)
    it = [e for e in ex.events if e[0] == 'loop_iter']
    start = ex.events.index(it[-1]) if it else 0
    calls = [e for e in ex.events[start:] if e[0] == 'call' and e[1] == 'ucc']
    elems = [e for e in ex.events[start:] if e[0] == 'comp_elem']
    f = arg(ctx, 'f')
    c = arg(ctx, 'container')
    ok = len(calls) == 1 and len(elems) == 1
    ex.prove('C07:%s:each-step-applies-the-function-once' % n, ['C07', 'C09', 'C01'], ok, {'calls': len(calls)})
    if ok:
        a = calls[0][3]
        ex.prove('C07:%s:applies-the-given-function-and-keeps-its-result' % n, ['C07'],
                 z3.And(calls[0][2] == f, elems[0][4] == calls[0][4]))
        el = [e for e in ex.events[start:] if e[0] == 'loop_elem'][-1][3]      # the element as it was when the step began
        if desc.kind in ('seq', 'str'):
            ex.prove('C07:%s:to-its-own-element' % n, ['C07', 'C09'], (ex.to_val(a[0]) == ex.to_val(el)) if len(a) == 1 else False)
        elif desc.kind == 'dictitems':
            ex.prove('C07:%s:to-key-and-value-of-its-own-item' % n, ['C07', 'C09'],
                     z3.And(ex.to_val(a[0]) == el[0], ex.to_val(a[1]) == el[1]) if len(a) == 2 and isinstance(el, tuple) else False)


ITERATION_SPECS = {'map': iter_map}


# --------------------------------------------------------------------------------------------- C19
def spec_rand(ex, ctx, outcome):
    n = lab(ex)
    h0 = ctx['entry']
    pack = [a for a in ctx['args'] if isinstance(a, Pack)]
    if pack:
        r0 = Val.tref(pack[0].val)
        cnt = h0.llen(r0)
        a0, a1 = h0.lelt(r0, 0), h0.lelt(r0, 1)
    else:
        # positional parameters with defaults: an omitted one is not an argument
        names = [k for k in ctx['env'].vars]
        given = [z3.Not(z3.Bool('omitted_' + k)) for k in names]
        cnt = z3.Sum([z3.If(g, 1, 0) for g in given]) if given else z3.IntVal(0)
        vals = [ex.to_val(ctx['env'].vars[k]) for k in names] + [L.NoneV, L.NoneV]
        a0, a1 = vals[0], vals[1]
        # arguments are given left to right
        for i in range(1, len(given)):
            ex.assume(z3.Implies(given[i], given[i - 1]))
    rnd = ev(ex, 'random')

    def intvalued(v):
        return z3.Or(L.is_Int(v), L.is_Bool(v), z3.And(L.is_Dec(v), L.dec_integral(Val.d(v)), L.dec_finite(Val.d(v))))

    def as_int(v):
        return z3.If(L.is_Dec(v), L.UF('dec_trunc', I, I)(Val.d(v)), intval(v))
    unchanged(ex, ctx, n, ['C19', 'C13'])
    if outcome[0] == 'return':
        r = outcome[1]
        fq = L.UF('flt_q', I, z3.RealSort())
        ex.prove('C19:%s:no-argument-gives-a-number-in-[0,1)' % n, ['C19'],
                 z3.Implies(cnt == 0, z3.And(L.is_Dec(r), L.dec_q(Val.d(r)) >= 0, L.dec_q(Val.d(r)) < 1)))
        ex.prove('C19:%s:two-bounds-give-an-integer-between-them' % n, ['C19'],
                 z3.Implies(z3.And(cnt == 2, intvalued(a0), intvalued(a1)),
                            z3.And(L.is_Dec(r), L.dec_integral(Val.d(r)),
                                   z3.Or([z3.And(e[1] == 'randint', z3.BoolVal(True)) for e in rnd] or [z3.BoolVal(False)]))))
        for e in rnd:
            if e[1] == 'randint':
                lo, hi = intval(e[2]), intval(e[3])
                ex.prove('C19:%s:draws-between-exactly-the-given-bounds' % n, ['C19'],
                         z3.Implies(z3.And(cnt == 2, intvalued(a0), intvalued(a1)),
                                    z3.And(lo == as_int(a0), hi == as_int(a1))))
                ints = [p for p in ex.events if p[0] == 'prim' and p[1] == 'decimal_of']
                ex.prove('C19:%s:returns-the-drawn-integer-itself' % n, ['C19'],
                         bool(ints) and r == ints[-1][3] and True if ints else False)
        if ex.picks:
            x, ref, j = ex.picks[-1]
            ex.prove('C19:%s:list-argument-gives-one-of-its-elements' % n, ['C19'],
                     z3.And(r == x, ref == Val.lref(a0), j >= 0, j < h0.llen(ref)))
    else:
        ex.prove('C19:%s:integer-valued-bounds-in-order-never-fail' % n, ['C19'],
                 z3.Not(z3.And(cnt == 2, intvalued(a0), intvalued(a1), as_int(a0) <= as_int(a1))))
        ex.prove('C19:%s:no-argument-never-fails' % n, ['C19'], cnt != 0)
        ex.prove('C19:%s:non-empty-list-never-fails' % n, ['C19'],
                 z3.Not(z3.And(cnt == 1, L.is_List(a0), h0.llen(Val.lref(a0)) > 0)))


def spec_shuffle(ex, ctx, outcome):
    n = lab(ex)
    c = arg(ctx, 'container')
    h0, h = ctx['entry'], ex.heap
    ws = writes(ex)
    for w in ws:
        ex.prove('C19:%s:argument-left-unchanged' % n, ['C19', 'C13'], ex.is_fresh(w[3]))
    if outcome[0] == 'return':
        r = outcome[1]
        lr = Val.lref(c)
        ex.prove('C19:%s:a-new-list-of-the-same-length' % n, ['C19', 'C07'],
                 z3.Implies(L.is_List(c), z3.And(L.is_List(r), ex.is_fresh(Val.lref(r)),
                                                 h.llen(Val.lref(r)) == h0.llen(lr))))
        ok = bool(ex.perms)
        if ok:
            arr, src, m = ex.perms[-1]
            ex.prove('C19:%s:a-permutation-of-the-argument' % n, ['C19', 'C07'],
                     z3.Implies(L.is_List(c), z3.And(h.lelts(Val.lref(r)) == arr, src == h0.lelts(lr))))
        else:
            ex.prove('C19:%s:a-permutation-of-the-argument' % n, ['C19', 'C07'], z3.Not(L.is_List(c)))
        ex.prove('C19:%s:argument-still-holds-the-same-elements' % n, ['C19', 'C13'],
                 z3.Implies(L.is_List(c), z3.And(h.llen(lr) == h0.llen(lr), h.lelts(lr) == h0.lelts(lr))))
