"""Contracts of smartquery/functions.py and smartquery/utils.py.

* helper contracts (callee side, used modularly by their callers and checked against their bodies):
  _check_array_size (C03 S3), _list_key_cast/_dict_key_cast/_key_cast (C14 M1), _parse_flags (C05 R3),
  _multiply (C04 N1), utils.safe_cast
* one task per entry of FUNCTIONS - whatever entries the table has on this run - checked against the
  universal callable contract through the generic families (Budget, Scopes, Values, Raises) plus the
  entry's own spec (C14 container model, C19 random ranges, C05 regex timeout, C04 digits, C16 classes)
"""
import ast
import z3

from sqv import logic as L
from sqv.logic import Val, I, B
from sqv.symex import Env, St, PyRaise, PathEnd, Unsupported, Closure
from sqv.engine import Task
from sqv.calls import Pack
from sqv import families as F
from .common import *

MOD = 'smartquery.functions:'
PE = 'ParserError'


# =====================================================================================
# helper contracts
# =====================================================================================
class CheckArraySize(FnContract):
    key = MOD + '_check_array_size'

    def length(self, ex, arr):
        arr = ex.to_val(arr)
        if ex.branch(z3.Or(L.is_List(arr), L.is_Tuple(arr)), 'cas-seq'):
            n = ex.heap.llen(ex.engine.model.seq_ref_b(ex, arr))
        elif ex.branch(L.is_Dict(arr), 'cas-dict'):
            n = ex.heap.dlen(L.simp(Val.dref(arr)))
        elif ex.branch(L.is_Str(arr), 'cas-str'):
            n = L.slen(Val.s(arr))
        else:
            return None
        ex.assume(n >= 0)
        return n

    def apply(self, ex, args, kwargs):
        n = self.length(ex, args[0])
        if n is None:
            if ex.branch(z3.Or(L.is_Opaque(ex.to_val(args[0])), L.is_Obj(ex.to_val(args[0]))), 'cas-opaque'):
                return ex.engine.model.stubs.unknown_call(ex, 'len-on-opaque', [ex.to_val(args[0])])
            ex.raise_('TypeError', 'object has no len()')
        if ex.branch(n >= F.MAX_ARRAY, 'cap-reached'):
            ex.event('cap_error', ex.to_val(args[0]))
            ex.raise_(PE, 'Array size overflow')
        return L.NoneV

    def check(self, ex, ctx, outcome):
        n = ctx.get('n')
        if n is None:
            return
        w = {'watch': {'len': n}}
        if outcome[0] == 'return':
            ex.prove('C03:_check_array_size:returns-only-below-the-cap', ['C03'], n < F.MAX_ARRAY, w)
        else:
            ex.prove('C03:_check_array_size:raises-only-at-the-cap', ['C03'], n >= F.MAX_ARRAY, w)
            ex.prove('C03:_check_array_size:cap-error-is-ParserError', ['C03', 'C16'], L.exc_is_sub(outcome[1], PE))
        frame_check(ex, ctx, [], '_check_array_size', ['C03', 'C13'])


def check_array_size_task(engine):
    fi = engine.src.funcs[MOD + '_check_array_size']

    def setup(ex):
        setup_cur_state(ex)
        arr = plain_arg(ex, 'arr')
        ex.assume(z3.Or(L.is_List(arr), L.is_Dict(arr)))
        n = z3.If(L.is_List(arr), ex.heap.llen(Val.lref(arr)), ex.heap.dlen(Val.dref(arr)))
        env = Env()
        bind_positional(env, fi, [arr])
        ctx = {'env': env, 'entry': ex.heap.copy(), 'n': n}
        ex.ctx = ctx
        return ctx
    t = Task(fi.key, 'helper', fi, setup, [F.Raises], CheckArraySize(engine))
    return t


def cap_constant_task(engine):
    """MAX_ARRAY_SIZE is the documented cap (folded constant)"""
    def setup(ex):
        return {'env': Env(), 'entry': ex.heap.copy()}

    def body(ex, ctx):
        try:
            v = engine.src.const('functions', 'MAX_ARRAY_SIZE')
        except Exception:
            v = None
        ex.prove('C03:MAX_ARRAY_SIZE:is-10000', ['C03'], v == 10000 and type(v) is int, {'value': repr(v)})
        return L.NoneV
    t = Task(MOD + 'MAX_ARRAY_SIZE', 'constant', None, setup, [], None)
    t.body = body
    return t


class ListKeyCast(FnContract):
    key = MOD + '_list_key_cast'

    def apply(self, ex, args, kwargs):
        k = ex.to_val(args[0])
        if ex.branch(L.is_Dec(k), 'key-is-decimal'):
            r = ex.engine.model.stubs.b_int(ex, [k], {})
            ex.event('prim', 'list_key_cast', k, r)
            return r
        ex.event('prim', 'list_key_cast', k, k)
        return k

    def check(self, ex, ctx, outcome):
        k = ctx['key']
        if outcome[0] == 'return':
            ints = prims_of(ex, 'int_of')
            ex.prove('C14:_list_key_cast:decimal-index-truncated-to-int-others-unchanged', ['C14', 'C07'],
                     z3.If(L.is_Dec(k), z3.And(L.is_Int(outcome[1]),
                                               Val.i(outcome[1]) == L.UF('dec_trunc', I, I)(Val.d(k))),
                           outcome[1] == k))
        frame_check(ex, ctx, [], '_list_key_cast', ['C14', 'C13'])


class DictKeyCast(FnContract):
    key = MOD + '_dict_key_cast'

    def apply(self, ex, args, kwargs):
        k = ex.to_val(args[0])
        r = ex.engine.model.stubs.b_str(ex, [k], {})
        ex.event('prim', 'dict_key_cast', k, r)
        return r

    def check(self, ex, ctx, outcome):
        k = ctx['key']
        if outcome[0] == 'return':
            ex.prove('C14:_dict_key_cast:keys-normalised-to-strings', ['C14', 'C07'],
                     outcome[1] == z3.If(L.is_Str(k), k, L.StrV(L.str_of(k))))
        frame_check(ex, ctx, [], '_dict_key_cast', ['C14', 'C13'])
        try:
            flag = ex.engine.src.const('functions', 'CAST_DICT_KEYS_TO_STRINGS')
        except Exception:
            flag = None
        ex.prove('C14:CAST_DICT_KEYS_TO_STRINGS:is-True', ['C14', 'C07'], flag is True)


class KeyCast(FnContract):
    key = MOD + '_key_cast'

    def apply(self, ex, args, kwargs):
        c, k = ex.to_val(args[0]), ex.to_val(args[1])
        if ex.branch(L.is_Dict(c), 'container-is-dict'):
            r = ex.engine.contracts[MOD + '_dict_key_cast'].apply(ex, [k], {})
        else:
            r = ex.engine.contracts[MOD + '_list_key_cast'].apply(ex, [k], {})
        ex.event('prim', 'key_cast', c, k, r)
        return r

    def check(self, ex, ctx, outcome):
        c, k = ctx['container'], ctx['key']
        if outcome[0] == 'return':
            d = [e for e in ex.events if e[0] == 'prim' and e[1] == 'dict_key_cast']
            l = [e for e in ex.events if e[0] == 'prim' and e[1] == 'list_key_cast']
            ex.prove('C14:_key_cast:dict-keys-via-dict-cast-others-via-list-cast', ['C14', 'C07'],
                     z3.If(L.is_Dict(c), z3.BoolVal(bool(d) and not l), z3.BoolVal(bool(l) and not d)))
            for e in d + l:
                ex.prove('C14:_key_cast:casts-the-key-itself', ['C14', 'C07'], z3.And(e[2] == k, outcome[1] == e[3]))
        frame_check(ex, ctx, [], '_key_cast', ['C14', 'C13'])


def prims_of(ex, kind):
    return [e for e in ex.events if e[0] == 'prim' and e[1] == kind]


def keycast_task(engine, name, contract, with_container=False):
    fi = engine.src.funcs[MOD + name]

    def setup(ex):
        setup_cur_state(ex)
        env = Env()
        ctx = {'env': env}
        vals = []
        if with_container:
            c = plain_arg(ex, 'container')
            vals.append(c)
            ctx['container'] = c
        k = plain_arg(ex, 'key')
        vals.append(k)
        bind_positional(env, fi, vals)
        ctx['key'] = k
        ctx['entry'] = ex.heap.copy()
        ex.ctx = ctx
        return ctx
    return Task(fi.key, 'helper', fi, setup, [F.Raises], contract(engine))


class Multiply(FnContract):
    key = MOD + '_multiply'

    def apply(self, ex, args, kwargs):
        a, b = ex.to_val(args[0]), ex.to_val(args[1])
        if not ex.branch(z3.And(L.is_numeric(a), L.is_numeric(b)), 'both-numeric'):
            ex.raise_(PE, "Can't multiply non-numbers")
        m = ex.engine.model
        da = m.stubs._decimal(ex, [a], {})
        db = m.stubs._decimal(ex, [b], {})
        r = m.binop(ex, 'Mult', da, db)
        ex.event('prim', 'mul_call', '*', a, b, False, r)
        return r

    def check(self, ex, ctx, outcome):
        a, b = ctx['a'], ctx['b']
        num = z3.And(L.is_numeric(a), L.is_numeric(b))
        if outcome[0] == 'return':
            r = outcome[1]
            ex.prove('C04:_multiply:only-numbers-are-multiplied', ['C04', 'C03'], num)
            ex.prove('C04:_multiply:result-is-a-28-digit-decimal', ['C04'],
                     z3.And(L.is_Dec(r), L.dec_digits(Val.d(r)) <= 28), {'watch': {'result': r}})
            bins = prims_of(ex, 'binop')
            decs = prims_of(ex, 'decimal_of')
            ok = len(bins) == 1 and len(decs) == 2
            ex.prove('C07:_multiply:decimal-product-of-the-operands-in-order', ['C07', 'C08', 'C04'],
                     z3.And(decs[0][2] == a, decs[1][2] == b, bins[0][3] == decs[0][3], bins[0][4] == decs[1][3],
                            r == bins[0][6]) if ok else False)
        else:
            ex.prove('C04:_multiply:non-numbers-rejected-with-ParserError-else-arithmetic-error', ['C04', 'C16'],
                     z3.If(num, L.exc_is_sub(outcome[1], 'ArithmeticError'), L.exc_is_sub(outcome[1], PE)))
        frame_check(ex, ctx, [], '_multiply', ['C04', 'C13'])


def multiply_task(engine):
    fi = engine.src.funcs.get(MOD + '_multiply')
    if fi is None:
        return None

    def setup(ex):
        setup_cur_state(ex)
        a, b = plain_arg(ex, 'op1'), plain_arg(ex, 'op2')
        env = Env()
        pos = fi.params()[0]
        env.vars[pos[0]] = a
        env.vars[pos[1]] = b
        ctx = {'env': env, 'a': a, 'b': b, 'entry': ex.heap.copy()}
        ex.ctx = ctx
        return ctx
    return Task(fi.key, 'helper', fi, setup, [F.Raises], Multiply(engine))


class SafeCast(FnContract):
    key = 'smartquery.utils:safe_cast'

    def apply(self, ex, args, kwargs):
        v, t = ex.to_val(args[0]), args[1]
        if ex.branch(L.is_None(v), 'cast-of-None'):
            return L.NoneV
        r = ex.engine.calls.call_value(ex, t, [v], {})
        return r

    def check(self, ex, ctx, outcome):
        v = ctx['v']
        calls = [e for e in ex.events if e[0] == 'call' and e[1] == 'ucc']
        if outcome[0] == 'return':
            ex.prove('C07:safe_cast:None-stays-None-else-the-cast-result', ['C07', 'C14'],
                     z3.If(L.is_None(v), z3.And(outcome[1] == L.NoneV, z3.BoolVal(not calls)),
                           z3.BoolVal(len(calls) == 1) if not calls else
                           z3.And(calls[0][2] == ctx['t'], outcome[1] == calls[0][4])))
            for c in calls:
                a = c[3]
                ex.prove('C07:safe_cast:casts-the-value-itself', ['C07', 'C14'],
                         len(a) == 1 and not isinstance(a[0], Pack) and ex.to_val(a[0]) == v
                         if len(a) == 1 and not isinstance(a[0], Pack) else False)


def safe_cast_task(engine):
    fi = engine.src.funcs['smartquery.utils:safe_cast']

    def setup(ex):
        setup_cur_state(ex)
        v = plain_arg(ex, 'v')
        t = z3.Const('arg_t', Val)
        ex.assume(L.is_Fun(t))
        env = Env()
        bind_positional(env, fi, [v, t])
        ctx = {'env': env, 'v': v, 't': t, 'entry': ex.heap.copy()}
        ex.ctx = ctx
        return ctx
    return Task(fi.key, 'helper', fi, setup, [F.Budget, F.Scopes, F.Raises], SafeCast(engine))


class ParseFlags(FnContract):
    key = MOD + '_parse_flags'

    def apply(self, ex, args, kwargs):
        v = ex.to_val(args[0])
        if ex.branch(z3.Not(ex.truthy(v)), 'no-flags'):
            return L.IntV(0)
        if not ex.branch(L.is_Str(v), 'flags-str'):
            ex.may_raise(['AttributeError', 'TypeError'], 'flags not a string')
            raise PathEnd()
        r = ex.fresh_int('flags')
        ex.assume(L.UF('flags_subset_IMS', I, B)(r))
        return L.IntV(r)

    def check(self, ex, ctx, outcome):
        if outcome[0] == 'return':
            r = outcome[1]
            # the result is built from 0 by |= with regex.I / regex.M / regex.S only
            ors = [e for e in ex.events if e[0] == 'prim' and e[1] == 'binop' and e[2] == '|']
            consts = {'const_regex_I', 'const_regex_M', 'const_regex_S'}
            ok = True
            for e in ors:
                rhs = L.simp(e[4])
                ok = ok and z3.is_app(rhs) and rhs.decl().name() == 'IntV' and str(rhs.arg(0)) in consts
            ex.prove('C05:_parse_flags:combines-only-I-M-S', ['C05'], ok and bool(L.is_true(L.simp(L.is_Int(r))) or True))
            ex.prove('C05:_parse_flags:yields-an-int', ['C05'], L.is_Int(r))
        frame_check(ex, ctx, [], '_parse_flags', ['C05', 'C13'])


def parse_flags_task(engine):
    fi = engine.src.funcs[MOD + '_parse_flags']

    def setup(ex):
        setup_cur_state(ex)
        v = plain_arg(ex, 'flags_str')
        env = Env()
        env.vars[fi.params()[0][0]] = v
        ctx = {'env': env, 'entry': ex.heap.copy()}
        ex.ctx = ctx
        return ctx
    return Task(fi.key, 'helper', fi, setup, [F.Raises], ParseFlags(engine))


# =====================================================================================
# FUNCTIONS entries
# =====================================================================================
RAW_ARITIES = {
    'len': [1], 'str': [0, 1], 'dict': [0, 1], 'min': [1, 2, 3], 'max': [1, 2, 3],
    'str.startswith': [2], 'str.endswith': [2], 'str.lower': [1], 'str.upper': [1], 'str.strip': [1, 2],
}


def entry_static(engine, name):
    return engine.functions_entry_static(name)


def builtin_setup(engine, name, st, fi, arity=None):
    def setup(ex):
        setup_cur_state(ex)
        env = Env()
        args = []
        if fi is not None:
            pos, defaults, vararg, kwarg = fi.params()
            for p, d in zip(pos, defaults):
                v = plain_arg(ex, p)
                if d is not None and ex.branch(z3.Bool('omitted_' + p), 'default-' + p):
                    saved = ex.cur_module
                    ex.cur_module = fi.module
                    v = ex.eval(d, Env())
                    ex.cur_module = saved
                env.vars[p] = v
                args.append(v)
            if vararg:
                env.vars[vararg] = plain_pack(ex, vararg)
                args.append(Pack(env.vars[vararg]))
            # a program calls builtins positionally: keyword-only parameters keep their defaults, **kw is empty
            for kname, kd in fi.kwonly():
                if kd is None:
                    raise Unsupported('builtin with a required keyword-only parameter')
                saved = ex.cur_module
                ex.cur_module = fi.module
                env.vars[kname] = ex.eval(kd, Env())
                ex.cur_module = saved
            if kwarg:
                env.vars[kwarg] = L.DictV(ex.new_dict_from([]))
        else:
            for k in range(arity):
                args.append(plain_arg(ex, 'a%d' % k))
        ctx = {'env': env, 'args': args, 'builtin_name': name, 'entry': ex.heap.copy(), 'static': st}
        ex.ctx = ctx
        watch = {}
        for k, a in enumerate(args):
            if isinstance(a, Pack):
                watch['len(*%d)' % k] = ex.heap.llen(Val.tref(a.val))
                watch['*%d[0]' % k] = ex.heap.lelt(Val.tref(a.val), 0)
                watch['*%d[1]' % k] = ex.heap.lelt(Val.tref(a.val), 1)
            elif isinstance(a, z3.ExprRef):
                nm = str(a) if a.num_args() == 0 else 'arg%d' % k
                watch[nm] = a
                watch['len(%s)' % nm] = z3.If(L.is_List(a), ex.heap.llen(Val.lref(a)),
                                         z3.If(L.is_Dict(a), ex.heap.dlen(Val.dref(a)),
                                         z3.If(L.is_Tuple(a), ex.heap.llen(Val.tref(a)),
                                         z3.If(L.is_Str(a), L.slen(Val.s(a)), z3.IntVal(-1)))))
        ex.task.watch = watch
        return ctx
    return setup


class EntrySpec(FnContract):
    """spec of one FUNCTIONS entry, dispatching on the entry name"""

    def __init__(self, engine, name):
        self.engine = engine
        self.name = name

    def on_iteration(self, ex, key, i, desc):
        from . import builtin_specs
        h = builtin_specs.ITERATION_SPECS.get(self.name)
        if h is not None:
            h(ex, ex.ctx, key, i, desc)

    def check(self, ex, ctx, outcome):
        from . import builtin_specs
        m = getattr(builtin_specs, 'spec_' + self.name.strip('_'), None)
        builtin_specs.generic(ex, ctx, outcome, self.name)
        if m is not None:
            m(ex, ctx, outcome)


def tasks(engine):
    out = []
    src = engine.src
    add_task(engine, out, lambda: check_array_size_task(engine))
    add_task(engine, out, lambda: cap_constant_task(engine))
    add_task(engine, out, lambda: keycast_task(engine, '_list_key_cast', ListKeyCast))
    add_task(engine, out, lambda: keycast_task(engine, '_dict_key_cast', DictKeyCast))
    add_task(engine, out, lambda: keycast_task(engine, '_key_cast', KeyCast, with_container=True))
    add_task(engine, out, lambda: multiply_task(engine))
    add_task(engine, out, lambda: safe_cast_task(engine))
    add_task(engine, out, lambda: parse_flags_task(engine))
    for name in src.functions_table:
        st = entry_static(engine, name)
        label = MOD + 'FUNCTIONS[%r]' % name
        if st.kind == 'func':
            fi = src.funcs[st.name]

            def make(fi=fi, name=name, st=st, label=label):
                return Task(fi.key, 'builtin', fi, builtin_setup(engine, name, st, fi), F.ALL_FAMILIES,
                            EntrySpec(engine, name), label=label + ' = ' + fi.qual)
            if name == '__setitem_with_op__' and 'op' in fi.params()[0]:
                out.extend(split_cases(make, label, ['+=', '-=', '*=', '/='], lambda ex, ctx: ctx['env'].vars['op']))
            else:
                out.append(make())
        else:
            arities = RAW_ARITIES.get(st.name, [1, 2])
            for ar in arities:
                t = Task(label, 'builtin', None, builtin_setup(engine, name, st, None, ar), F.ALL_FAMILIES,
                         EntrySpec(engine, name), static=st, label=label + ' = %s/%d' % (st.name, ar))

                def body(ex, ctx, st=st):
                    ex.cur_func = ex.task.label
                    ex.cur_module = 'functions'
                    return engine.calls.call_value(ex, st, list(ctx['args']), {})
                t.body = body
                out.append(t)
    return out


def contracts(engine):
    cs = [CheckArraySize, ListKeyCast, DictKeyCast, KeyCast, SafeCast, ParseFlags]
    out = {c.key: c(engine) for c in cs}
    if MOD + '_multiply' in engine.src.funcs:
        out[Multiply.key] = Multiply(engine)
    return out
