"""Shared pieces of the sidecar contracts: parameter set-up for each role, callee-side contract
objects, registry."""
import z3

from sqv import logic as L
from sqv.logic import Val, I, B
from sqv.symex import Env, St, PyRaise, PathEnd, Unsupported
from sqv.engine import Task
from sqv import families as F
from sqv.families import CUR, CAP, ops, max_ops, nodes, cur_names, cur_scopes, langval, langval_parts

TASKS = []           # filled by the contract modules: list of callables engine -> [Task]
CONTRACTS = []       # callables engine -> {key: callee-side contract}


def fn(ex):
    import re
    return re.sub(r'\{(=[^}]*|other)\}$', '', ex.task.label.split(':')[-1])


def setup_cur_state(ex, below_limit=True):
    """the VMState of the evaluation in progress and its well-formedness (type invariants)"""
    sh = ex.engine.shapes
    ex.assume(CUR >= 0)
    ex.assume(CUR < ex.entry_next)
    ex.assume(L.cls_of(CUR) == sh.cid('VMState'))
    ex.note_class(CUR, 'VMState', exact=True)
    h = ex.heap
    names = h.fld('names', CUR)
    sh.assume(ex, ex.known(names), sh.field_ty('VMState', 'names'))
    nref = L.simp(Val.oref(names))
    ex.note_class(nref, 'ScopedDict', exact=True)
    ex.assume(L.cls_of(nref) == sh.cid('ScopedDict'))
    scopes = h.fld('scopes', nref)
    sh.assume(ex, ex.known(scopes), sh.field_ty('ScopedDict', 'scopes'))
    sref = L.simp(Val.lref(scopes))
    ex.assume(h.llen(sref) >= 1)
    ex.assume(z3.Not(L.node_owned(sref)))
    ex.assume(L.is_Int(h.fld('ops_evaluated', CUR)))
    ex.assume(L.is_Int(h.fld('max_ops_evaluated', CUR)))
    ex.assume(ops(h) >= 0)
    # no assumption on the budget itself: a host may pass 0 or a negative number (nothing may start then)
    if below_limit:
        ex.assume(ops(h) < max_ops(h))
    ex.assume(CAP >= F.MAX_ARRAY)
    g = F.G_FUNCTIONS()
    ex.assume(z3.And(g >= 0, g < ex.entry_next, g != sref))
    return L.ObjV(CUR)


def setup_self(ex, cls, name='self'):
    sh = ex.engine.shapes
    r = z3.Int(name + '_ref')
    ex.assume(z3.And(r >= 0, r < ex.entry_next, r != CUR))
    ex.assume(L.cls_of(r) == sh.cid(cls))
    ex.note_class(r, cls, exact=True)
    return L.ObjV(r)


def plain_arg(ex, name):
    v = z3.Const('arg_' + name, Val)
    ex.known(v)
    ex.assume(langval(ex, v))
    return v


def plain_pack(ex, name):
    """*args: a tuple of unknown length whose elements are language values"""
    r = z3.Int('argpack_' + name)
    ex.assume(z3.And(r >= 0, r < ex.entry_next))
    ex.assume(ex.heap.llen(r) >= 0)
    ex.assume(z3.Not(L.node_owned(r)))
    ex.assume(ex.heap.llen(r) <= CAP)
    return L.TupleV(r)


def split_cases(task_factory, label, literals, selector):
    """exhaustive case split of one task on a string-valued symbol: one task per literal + one for the rest"""
    import copy
    out = []
    for lit in list(literals) + [None]:
        t = task_factory()
        t.label = '%s{%s}' % (t.label, ('=' + lit) if lit is not None else 'other')
        if lit is not None:
            t.case = (lambda ex, ctx, lit=lit: selector(ex, ctx) == ex.str_lit(lit))
        else:
            t.case = (lambda ex, ctx: z3.And([selector(ex, ctx) != ex.str_lit(l) for l in literals]))
        out.append(t)
    return out


class FnContract:
    """callee-side contract of one package function"""
    key = None

    def __init__(self, engine):
        self.engine = engine

    def apply(self, ex, args, kwargs):
        raise NotImplementedError

    def check(self, ex, ctx, outcome):
        pass


def frame_check(ex, ctx, allowed, name, props):
    """modifies clause: only the listed heap arrays differ from the entry snapshot"""
    entry = ctx['entry']
    changed = []
    for k, v in ex.heap.a.items():
        if not v.eq(entry.arr(k)):
            changed.append(k)
    bad = [k for k in changed if k not in allowed]
    ex.prove('%s:%s:modifies-only-%s' % (props[0], fn(ex), '+'.join(allowed) or 'nothing'), props, not bad,
             {'changed': changed})


def add_task(engine, out, thunk):
    """build one task (or a list of tasks); a function under contract that no longer exists is recorded, the other
    tasks are still built and run"""
    from sqv.pyfront import MissingFunction
    try:
        t = thunk()
    except MissingFunction as e:
        engine.missing_functions.append(str(e.args[0]))
        return
    if t is None:
        return
    if isinstance(t, (list, tuple)):
        out.extend(t)
    else:
        out.append(t)


def bind_positional(env, fi, values, published=None):
    """bind the symbolic arguments to the function's parameters BY POSITION (what a caller does), so that a
    parameter renamed in the source is still bound; `published` names are bound as well when they differ, so
    that specs written against the published names keep reading the same values"""
    pos = fi.params()[0]
    for k, v in enumerate(values):
        if k < len(pos):
            env.vars[pos[k]] = v
        if published and k < len(published):
            env.vars.setdefault(published[k], v)
