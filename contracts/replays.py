"""Replay templates: obligation name -> concrete scenarios (Python programs run natively)."""
import re

HEADER = '''import json, sys
from decimal import Decimal
from smartquery import SqParser, ParserError
from smartquery.exceptions import OpsExecutionLimitExceededError
def out(violated, **kw):
    print(json.dumps(dict(violated=bool(violated), **{k: repr(v)[:300] for k, v in kw.items()})))
    sys.exit(0)
'''

TEMPLATES = []      # (prop regex, name regex, fn(prop, name, inst) -> [(title, program)])


def template(prop_re, name_re):
    def deco(fn):
        TEMPLATES.append((re.compile(prop_re), re.compile(name_re), fn))
        return fn
    return deco


def programs_for(prop, name, inst):
    out = []
    for pr, nr, fn in TEMPLATES:
        if pr.fullmatch(prop) and nr.search(name):
            out.extend(fn(prop, name, inst))
    return out
