"""Contracts of smartquery/scoped_dict.py (C10 Sc1, Sc2; abstract view: scopes = sequence of dicts)."""
import ast
import z3

from sqv import logic as L
from sqv.logic import Val, I, B
from sqv.symex import Env, St, PyRaise, PathEnd, Unsupported, ReturnEx
from sqv.engine import Task
from sqv import families as F
from sqv.pymodel import shifted_delete
from .common import *

MOD = 'smartquery.scoped_dict:ScopedDict.'


def scopes_ref(ex, self_):
    sh = ex.engine.shapes
    r = L.simp(Val.oref(self_))
    v = ex.known(ex.get_field(r, 'scopes'))
    sh.assume(ex, v, sh.field_ty('ScopedDict', 'scopes'))
    s = L.simp(Val.lref(v))
    ex.assume(ex.heap.llen(s) >= 1)
    return s


def scope_at(ex, s, j):
    d = ex.heap.lelt(s, j)
    ex.assume(L.is_Dict(d))
    ex.known(d)
    # ScopedDict invariant (established by SqParser.eval, C10 Sc5): no scope is the builtin table itself
    ex.assume(Val.dref(d) != F.G_FUNCTIONS())
    return L.simp(Val.dref(d))


class GetItem(FnContract):
    key = MOD + '__getitem__'

    def apply(self, ex, args, kwargs):
        self_, item = args[0], ex.to_val(args[1])
        s = scopes_ref(ex, self_)
        n = ex.heap.llen(s)
        if not ex.branch(ex.engine.model.hashable(item), 'hashable'):
            ex.raise_('TypeError', 'unhashable')
        if ex.branch(ex.fresh_bool('found'), 'name-found'):
            j = ex.fresh_int('scope_idx')
            ex.assume(z3.And(j >= 0, j < n))
            d = scope_at(ex, s, j)
            ex.assume(ex.heap.dhas(d, item))
            r = ex.known(ex.heap.dval(d, item))
            ex.assume_scope_value(r)
            ex.event('lookup', self_, item, r, j)
            return r
        ex.event('lookup', self_, item, None, None)
        ex.raise_('KeyError', 'name not bound in any scope')

    def check(self, ex, ctx, outcome):
        g = ctx['ghost']
        s, n, item = ctx['scopes'], ctx['n'], ctx['item']
        h = ctx['entry']
        if outcome[0] == 'return':
            top = Val.dref(h.lelt(s, g['M']))
            ex.prove('C10:__getitem__:returns-innermost-binding', ['C10', 'C07', 'C18'],
                     z3.And(g['EXISTS'], outcome[1] == h.dval(top, item)),
                     {'watch': {'M': g['M'], 'n': n, 'result': outcome[1]}})
        else:
            ex.prove('C10:__getitem__:raises-KeyError-iff-unbound', ['C10', 'C16', 'C18', 'C07'],
                     z3.And(outcome[1] == L.EXC_ID['KeyError'], z3.Not(g['EXISTS'])))
        for e in ex.events:
            if e[0] == 'dict_subscript':
                # a scope may be a host mapping with a __missing__ hook (defaultdict): `scope[item]` without the
                # membership test would invent bindings that shadow every outer scope and the builtins
                ex.prove('C10:__getitem__:a-scope-is-subscripted-only-where-it-binds-the-name', ['C10', 'C13', 'C19', 'C07', 'C02'],
                         bool(e[4]), soft=True)
        frame_check(ex, ctx, [], '__getitem__', ['C10'])


def getitem_task(engine):
    fi = engine.src.funcs[MOD + '__getitem__']

    def setup(ex):
        self_ = setup_self(ex, 'ScopedDict')
        item = z3.Const('arg_item', Val)
        ex.assume(L.is_Str(item))
        s = scopes_ref(ex, self_)
        n = ex.heap.llen(s)
        M, EX = z3.Int('ghost_M'), z3.Bool('ghost_EXISTS')
        # ghost: M = index of the innermost scope that binds the name (if any)
        ex.assume(z3.Implies(EX, z3.And(M >= 0, M < n, L.is_Dict(ex.heap.lelt(s, M)),
                                        ex.heap.dhas(Val.dref(ex.heap.lelt(s, M)), item))))
        env = Env()
        bind_positional(env, fi, [self_, item])
        ctx = {'env': env, 'entry': ex.heap.copy(), 'scopes': s, 'n': n, 'item': item,
               'ghost': {'M': M, 'EXISTS': EX}}
        ex.ctx = ctx
        return ctx

    t = Task(fi.key, 'scoped_dict_method', fi, setup, [F.Raises], GetItem(engine))
    return t


def getitem_loop(ex, env, i):
    """Sc1 loop invariant: the innermost binding scope M has not been passed yet"""
    g = ex.ctx['ghost']
    n = ex.ctx['n']
    return [('innermost-binding-not-yet-passed', ['C10', 'C07'], z3.Implies(g['EXISTS'], g['M'] <= n - 1 - i))]


def getitem_axioms(ex, env, i):
    """definition of the ghost M instantiated at the scope visited in iteration i"""
    g = ex.ctx['ghost']
    s, n, item = ex.ctx['scopes'], ex.ctx['n'], ex.ctx['item']
    t = n - 1 - i
    d = ex.heap.lelt(s, t)
    has_t = z3.And(L.is_Dict(d), ex.heap.dhas(Val.dref(d), item))
    return [z3.Implies(z3.And(g['EXISTS'], t > g['M']), z3.Not(has_t)),
            z3.Implies(z3.Not(g['EXISTS']), z3.Not(has_t))]


class SetItem(FnContract):
    key = MOD + '__setitem__'

    def apply(self, ex, args, kwargs):
        self_, key, value = args[0], ex.to_val(args[1]), ex.to_val(args[2])
        s = scopes_ref(ex, self_)
        n = ex.heap.llen(s)
        d = scope_at(ex, s, n - 1)
        if not ex.branch(ex.engine.model.hashable(key), 'hashable'):
            ex.raise_('TypeError', 'unhashable')
        ex.event('store_name', self_, key, value, d)
        ex.engine.model.dict_store(ex, d, key, value, kind='scope-store')
        return L.NoneV

    def check(self, ex, ctx, outcome):
        s, n = ctx['scopes'], ctx['n']
        h = ctx['entry']
        top = L.simp(Val.dref(h.lelt(s, n - 1)))
        writes = [e for e in ex.events if e[0] == 'write']
        ok = outcome[0] == 'return' and len(writes) == 1 and writes[0][1] == 'dict'
        ex.prove('C10:__setitem__:writes-exactly-one-scope', ['C10', 'C07'], ok)
        if ok:
            ex.prove('C10:__setitem__:writes-the-innermost-scope', ['C10', 'C07'], writes[0][3] == top)
            ex.prove('C10:__setitem__:binds-the-value', ['C10', 'C07'],
                     z3.And(ex.heap.dhas(top, ctx['key']), ex.heap.dval(top, ctx['key']) == ctx['value']))


def setitem_task(engine):
    fi = engine.src.funcs[MOD + '__setitem__']

    def setup(ex):
        self_ = setup_self(ex, 'ScopedDict')
        key = z3.Const('arg_key', Val)
        ex.assume(L.is_Str(key))
        value = z3.Const('arg_value', Val)
        ex.known(value)
        s = scopes_ref(ex, self_)
        n = ex.heap.llen(s)
        ex.assume(L.is_Dict(ex.heap.lelt(s, n - 1)))
        env = Env()
        bind_positional(env, fi, [self_, key, value])
        ctx = {'env': env, 'entry': ex.heap.copy(), 'scopes': s, 'n': n, 'key': key, 'value': value}
        ex.ctx = ctx
        return ctx
    return Task(fi.key, 'scoped_dict_method', fi, setup, [F.Raises], SetItem(engine))


class PushScope(FnContract):
    key = MOD + 'push_scope'

    def apply(self, ex, args, kwargs):
        self_, scope = args[0], ex.to_val(args[1])
        s = scopes_ref(ex, self_)
        n = ex.heap.llen(s)
        ex.event('push_scope', self_, scope)
        ex.list_write('scope-push', s, n + 1, z3.Store(ex.heap.lelts(s), n, scope), stored=())
        return L.NoneV

    def check(self, ex, ctx, outcome):
        s, n, h = ctx['scopes'], ctx['n'], ctx['entry']
        K = z3.Int('K_view')
        ex.prove('C10:push_scope:view-is-old-view-plus-scope', ['C10'],
                 z3.And(outcome[0] == 'return', ex.heap.llen(s) == n + 1, ex.heap.lelt(s, n) == ctx['scope'],
                        z3.Implies(z3.And(K >= 0, K < n), ex.heap.lelt(s, K) == h.lelt(s, K))))


class PopScope(FnContract):
    key = MOD + 'pop_scope'

    def apply(self, ex, args, kwargs):
        self_ = args[0]
        s = scopes_ref(ex, self_)
        n = ex.heap.llen(s)
        ex.event('pop_scope', self_)
        ex.list_write('scope-pop', s, n - 1, shifted_delete(ex, ex.heap.lelts(s), n - 1))
        return L.NoneV

    def check(self, ex, ctx, outcome):
        s, n, h = ctx['scopes'], ctx['n'], ctx['entry']
        K = z3.Int('K_view')
        ex.prove('C10:pop_scope:view-is-old-view-minus-last', ['C10'],
                 z3.And(outcome[0] == 'return', ex.heap.llen(s) == n - 1,
                        z3.Implies(z3.And(K >= 0, K < n - 1), ex.heap.lelt(s, K) == h.lelt(s, K))))


def pushpop_task(engine, name, contract):
    fi = engine.src.funcs[MOD + name]

    def setup(ex):
        self_ = setup_self(ex, 'ScopedDict')
        s = scopes_ref(ex, self_)
        n = ex.heap.llen(s)
        env = Env()
        bind_positional(env, fi, [self_])
        ctx = {'env': env, 'scopes': s, 'n': n}
        if name == 'push_scope':
            scope = z3.Const('arg_scope', Val)
            # weakest precondition of the call sites: a dict, or a host mapping object that is not a dict
            ex.assume(z3.Or(L.is_Dict(scope), L.is_Opaque(scope)))
            ex.known(scope)
            bind_positional(env, fi, [self_, scope])
            ctx['scope'] = scope
        ctx['entry'] = ex.heap.copy()
        ex.ctx = ctx
        return ctx
    return Task(fi.key, 'scoped_dict_method', fi, setup, [F.Raises], contract(engine))


class MakeScope(FnContract):
    """context manager: enter = push the scope; exit (normal or exceptional) = pop it"""
    key = MOD + 'make_scope'

    def enter(self, ex, args, kwargs):
        self_, scope = args[0], ex.to_val(args[1])
        s = scopes_ref(ex, self_)
        n = ex.heap.llen(s)
        ex.event('push_scope', self_, scope)
        ex.list_write('scope-push', s, n + 1, z3.Store(ex.heap.lelts(s), n, scope), stored=())
        return (s, n, self_), self_

    def exit(self, ex, tok, exc):
        s, n, self_ = tok
        m = ex.heap.llen(s)
        ex.event('pop_scope', self_)
        ex.list_write('scope-pop', s, m - 1, shifted_delete(ex, ex.heap.lelts(s), m - 1))

    def apply(self, ex, args, kwargs):
        raise Unsupported('make_scope outside with')

    def check(self, ex, ctx, outcome):
        s, n, h = ctx['scopes'], ctx['n'], ctx['entry']
        K = z3.Int('K_view')
        ex.prove('C10:make_scope:scope-popped-on-%s-exit' % ('normal' if outcome[0] == 'return' else 'exceptional'),
                 ['C10', 'C11'],
                 z3.And(ex.heap.llen(s) == n,
                        z3.Implies(z3.And(K >= 0, K < n), ex.heap.lelt(s, K) == h.lelt(s, K))),
                 {'watch': {'len_at_entry': n, 'len_at_exit': ex.heap.llen(s)}})
        ex.prove('C10:make_scope:body-ran-with-the-scope-on-top', ['C10'], ctx.get('seen_top') is True)


def make_scope_task(engine):
    fi = engine.src.funcs[MOD + 'make_scope']

    def setup(ex):
        self_ = setup_self(ex, 'ScopedDict')
        s = scopes_ref(ex, self_)
        n = ex.heap.llen(s)
        scope = z3.Const('arg_scope', Val)
        ex.assume(L.is_Dict(scope))
        ex.known(scope)
        env = Env()
        ctx = {'env': env, 'scopes': s, 'n': n, 'scope': scope, 'self': self_, 'entry': ex.heap.copy()}
        ex.ctx = ctx
        return ctx

    def body(ex, ctx):
        s, n = ctx['scopes'], ctx['n']
        K = z3.Int('K_view')

        def with_body(v):
            # the with-body: arbitrary code that preserves the scope stack (TSI-3) and may raise
            h0 = ex.heap.copy()
            ex.prove('C10:make_scope:yields-with-scope-pushed', ['C10'],
                     z3.And(h0.llen(s) == n + 1, h0.lelt(s, n) == ctx['scope']))
            ctx['seen_top'] = True
            ex.havoc(['F_ops_evaluated'])
            ex.havoc_data()
            ex.havoc_alloc()
            ex.assume(ex.heap.llen(s) == h0.llen(s))
            ex.assume(z3.Implies(z3.And(K >= 0, K < n + 1), ex.heap.lelt(s, K) == h0.lelt(s, K)))
            ex.may_raise(['Exception'], 'with-body')
        ex.cur_func = fi.key
        ex.engine.model.run_contextmanager(ex, fi, [ctx['self'], ctx['scope']], {}, with_body)
        return L.NoneV

    t = Task(fi.key, 'scoped_dict_method', fi, setup, [F.Raises], MakeScope(engine))
    t.body = body
    return t


def tasks(engine):
    engine.loops.invariants[(MOD + '__getitem__', 0)] = getitem_loop
    # the invariant (ghost index of the innermost binding) is written for `for scope in reversed(self.scopes)`
    engine.loops.shape_checks[(MOD + '__getitem__', 0)] = lambda st: isinstance(st, ast.For) and isinstance(st.iter, ast.Call) \
        and isinstance(st.iter.func, ast.Name) and st.iter.func.id == 'reversed'
    engine.loops.axioms[(MOD + '__getitem__', 0)] = getitem_axioms
    out = []
    add_task(engine, out, lambda: getitem_task(engine))
    add_task(engine, out, lambda: setitem_task(engine))
    add_task(engine, out, lambda: pushpop_task(engine, 'push_scope', PushScope))
    add_task(engine, out, lambda: pushpop_task(engine, 'pop_scope', PopScope))
    add_task(engine, out, lambda: make_scope_task(engine))
    return out


def contracts(engine):
    return {c.key: c(engine) for c in (GetItem, SetItem, PushScope, PopScope, MakeScope)}
