#!/bin/bash
# usage: tools/run_seeded.sh <seeded-id> [property]  -- applies the seeded change to a scratch copy of /repo
# (outside /repo and /verif, removed afterwards) and runs the check of the property it breaks against it.
id=$1
cd "$(dirname "$0")/.."
prop=${2:-$(python3 -c "import json;print(json.load(open('seeded/$id/meta.json'))['breaks_property'])")}
tmp=$(mktemp -d /tmp/sqv_seed_XXXXXX)
trap 'rm -rf "$tmp"' EXIT
mkdir -p $tmp/repo && cp -r /repo/smartquery /repo/tests $tmp/repo/ 2>/dev/null
(cd $tmp/repo && patch -s -p1 < /verif/seeded/$id/patch.diff) || { echo "$id: PATCH FAILED"; exit 9; }
SQ_REPO=$tmp/repo SQV_OUT=$tmp/out ./check $prop > $tmp/out.txt 2>&1
code=$?
nviol=$(grep -c '^VIOLATION' $tmp/out.txt)
nrepro=$(grep '^VIOLATION' $tmp/out.txt | grep -vc 'no-failing-input-found')
echo "$id prop=$prop exit=$code violations=$nviol reproduced=$nrepro :: $(grep -m3 '^  obligation\|^UNDECIDED\|^CHECKER' $tmp/out.txt | cut -c1-150 | tr '\n' '|')"
if [ -n "$VERBOSE" ]; then cat $tmp/out.txt; fi
# keep evidence of the unchanged tree: the mutant run overwrote it, so drop it (re-run the check to regenerate)
