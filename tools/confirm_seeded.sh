#!/bin/bash
# usage: tools/confirm_seeded.sh <out-dir-of-sub-agent> <prop> <src a|b> <new id>
# confirms an independently produced change on a scratch copy of /repo (tests pass with it, demo fails with it,
# demo passes without it) and, only then, stores it as seeded/<new id>/
src=$1; prop=$2; x=$3; id=$4
tmp=$(mktemp -d /tmp/sqv_conf_XXXXXX)
trap 'rm -rf "$tmp"' EXIT
git clone -q /repo $tmp/repo || exit 9
cd $tmp/repo
d0=$(/venv/bin/python $src/$x/demo.py > $tmp/d0.txt 2>&1; echo $?)
git apply $src/$x/patch.diff || { echo "$id: PATCH DOES NOT APPLY"; exit 9; }
t=$(/venv/bin/python -m pytest -q -p no:cacheprovider 2>&1 | tail -1)
d1=$(/venv/bin/python $src/$x/demo.py > $tmp/d1.txt 2>&1; echo $?)
ok=no
case "$t" in *"100 passed"*) [ "$d0" = 0 ] && [ "$d1" != 0 ] && ok=yes;; esac
echo "$id: tests='$t' demo_without=$d0 demo_with=$d1 confirmed=$ok"
if [ $ok = yes ]; then
  mkdir -p /verif/seeded/$id
  cp $src/$x/patch.diff $src/$x/demo.py $src/$x/notes.md /verif/seeded/$id/
  cat > /verif/seeded/$id/meta.json <<EOM
{
 "id": "$id",
 "breaks_property": "$prop",
 "round": 3,
 "needs_to_manifest": "see notes.md (written by the independent sub-agent that produced the change)",
 "source": "fresh sub-agent (round 3) given only the property text, summaries of the earlier changes to avoid, and a scratch clone of /repo at commit $(git rev-parse --short HEAD); no access to /verif",
 "confirmed": {
  "what_i_ran": "scratch clone: demo.py on the clean tree (exit $d0); git apply patch.diff; /venv/bin/python -m pytest -q -p no:cacheprovider ($t); demo.py with the change (exit $d1)",
  "tests_pass_with_change": true,
  "demo_fails_with_change": true,
  "demo_passes_without_change": true
 }
}
EOM
fi
