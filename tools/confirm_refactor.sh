#!/bin/bash
# usage: tools/confirm_refactor.sh <out-dir-of-sub-agent>/r <new harmless id>
# confirms an independently produced behaviour-preserving refactor on a scratch clone of /repo (tests pass with
# it, the differential digest is the same with and without it) and stores it as harmless/<id>/
src=$1; id=$2
tmp=$(mktemp -d /tmp/sqv_conf_XXXXXX)
trap 'rm -rf "$tmp"' EXIT
git clone -q /repo $tmp/repo || exit 9
cd $tmp/repo
d0=$(timeout 900 /venv/bin/python $src/check.py 2>&1 | grep -m1 '^DIGEST')
git apply $src/patch.diff || { echo "$id: PATCH DOES NOT APPLY"; exit 9; }
t=$(/venv/bin/python -m pytest -q -p no:cacheprovider 2>&1 | tail -1)
d1=$(timeout 900 /venv/bin/python $src/check.py 2>&1 | grep -m1 '^DIGEST')
ok=no
case "$t" in *"100 passed"*) [ -n "$d0" ] && [ "$d0" = "$d1" ] && ok=yes;; esac
echo "$id: tests='$t' digest_without='${d0:0:24}' digest_with='${d1:0:24}' confirmed=$ok"
if [ $ok = yes ]; then
  mkdir -p /verif/harmless/$id
  cp $src/patch.diff $src/check.py $src/notes.md /verif/harmless/$id/
  printf '{\n "id": "%s",\n "kind": "behaviour-preserving refactor written by a fresh sub-agent (round 5) that saw only the property text and a scratch clone; confirmed: 100 tests pass with it, its differential check.py prints the same DIGEST with and without it",\n "tests": "%s"\n}\n' "$id" "$t" > /verif/harmless/$id/meta.json
fi
