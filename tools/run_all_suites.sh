#!/bin/bash
# regression: every seeded change must exit 1, every harmless edit must exit 0
cd "$(dirname "$0")/.."
out=${1:-/tmp/sqv_suites.txt}
: > $out
for d in seeded/*/; do id=$(basename $d); tools/run_seeded.sh $id | cut -c1-200 >> $out; done
for d in harmless/*/; do id=$(basename $d); tools/run_harmless.sh $id 2>&1 | tail -1 | cut -c1-300 >> $out; done
echo done >> $out
