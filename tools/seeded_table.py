#!/usr/bin/env python3
"""usage: tools/seeded_table.py <suite-output> : markdown table of the seeded changes (id, what it is, first failed obligations)"""
import os
import re
import sys

ROOT = os.path.dirname(os.path.dirname(os.path.abspath(__file__)))
rows = {}
for line in open(sys.argv[1]):
    m = re.match(r'(\S+) prop=(C\d\d) exit=(\d) violations=(\d+) reproduced=(\d+) :: (.*)', line)
    if not m:
        continue
    sid, prop, code, nv, nr, rest = m.groups()
    obs = re.findall(r'obligation (.+?) refuted', rest)
    rows[sid] = (prop, code, int(nv), int(nr), obs)
print('| id | change (from the sub-agent\'s note) | exit | first failed obligation | native input |')
print('|---|---|---|---|---|')
for sid in sorted(rows, key=lambda s: (s[:3], s[3:])):
    prop, code, nv, nr, obs = rows[sid]
    note = os.path.join(ROOT, 'seeded', sid, 'notes.md')
    title = ''
    if os.path.exists(note):
        for l in open(note):
            l = l.strip()
            if l:
                title = re.sub(r'^#+\s*', '', l)
                title = re.sub(r'^C\d\d\s*/\s*\w+\s*(\(round \d\))?\s*[-–—:]+\s*', '', title)
                break
    ob = obs[0] if obs else '—'
    ob = re.sub(r"FUNCTIONS\['([^']+)'\] = [^:]+", r"\1", ob)
    print('| %s | %s | %s | `%s`%s | %s |' % (sid, title[:110].replace('|', '/'), code, ob[:120].replace('|', '/'), ' (+%d)' % (nv - 1) if nv > 1 else '',
                                       'found' if nr else 'no-failing-input-found'))
