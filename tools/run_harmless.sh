#!/bin/bash
# usage: tools/run_harmless.sh <harmless-id> [props...]: every check must stay exit 0 on a harmless edit
id=$1; shift
props=${@:-C01 C02 C03 C04 C05 C06 C07 C08 C09 C10 C11 C12 C13 C14 C15 C16 C17 C18 C19 C20}
cd "$(dirname "$0")/.."
tmp=$(mktemp -d /tmp/sqv_harm_XXXXXX)
trap 'rm -rf "$tmp"' EXIT
mkdir -p $tmp/repo && cp -r /repo/smartquery $tmp/repo/
(cd $tmp/repo && patch -s -p1 < /verif/harmless/$id/patch.diff) || { echo "$id: PATCH FAILED"; exit 9; }
bad=""
for p in $props; do
  SQ_REPO=$tmp/repo SQV_OUT=$tmp/out ./check $p > $tmp/out_$p.txt 2>&1
  code=$?
  if [ $code -ne 0 ]; then bad="$bad $p(exit $code: $(grep -m2 '^  obligation\|^UNDECIDED\|^CHECKER' $tmp/out_$p.txt | cut -c1-170 | tr '\n' '|'))"; fi
done
echo "$id: ${bad:-all exit 0}"
