#!/bin/bash
# usage: tools/run_harmless.sh <harmless-id> [props...]: every check must stay exit 0 on a harmless edit.
# Without a property list the screening mode `./check all` is used (one symbolic run, per-property verdicts);
# with a list, the registered per-property commands.
id=$1; shift
cd "$(dirname "$0")/.."
tmp=$(mktemp -d /tmp/sqv_harm_XXXXXX)
trap 'rm -rf "$tmp"' EXIT
mkdir -p $tmp/repo && cp -r /repo/smartquery $tmp/repo/
(cd $tmp/repo && patch -s -p1 < /verif/harmless/$id/patch.diff) || { echo "$id: PATCH FAILED"; exit 9; }
bad=""
if [ $# -eq 0 ]; then
  SQ_REPO=$tmp/repo SQV_OUT=$tmp/out ./check all > $tmp/out_all.txt 2>&1
  bad=$(grep -v "exit 0;" $tmp/out_all.txt | grep "^C[0-9][0-9]: \|^VIOLATION\|^  obligation\|^UNDECIDED\|^CHECKER" | cut -c1-200 | head -8 | tr '\n' '|')
  [ -n "$VERBOSE" ] && cat $tmp/out_all.txt
else
  for p in "$@"; do
    SQ_REPO=$tmp/repo SQV_OUT=$tmp/out ./check $p > $tmp/out_$p.txt 2>&1
    code=$?
    if [ $code -ne 0 ]; then bad="$bad $p(exit $code: $(grep -m2 '^  obligation\|^UNDECIDED\|^CHECKER' $tmp/out_$p.txt | cut -c1-170 | tr '\n' '|'))"; fi
  done
fi
echo "$id: ${bad:-all exit 0}"
